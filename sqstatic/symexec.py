"""Path-enumerating symbolic evaluator for the small Python functions of the
analysed package.

A function body is executed on *terms* (nested tuples) instead of values.
Branch conditions that fold to a constant under the current specialisation are
folded; any other condition forks the path on its truth value (recorded as an
assumption, re-used when the same condition is met again on that path).  Forks
are explored by replay: ``choose(n)`` consults a prefix of decisions, and the
driver re-runs the body once per decision sequence (depth first).

Result per path: the ordered list of events (calls, loads that may raise,
stores, raises, yields ...) each with its syntactic context (enclosing loops,
try blocks, with blocks, inlined callees), the assumptions made, and the
outcome (returned term / raised term).

The evaluator never imports or runs code of the analysed tree.
"""
from __future__ import annotations

import ast
import builtins
from dataclasses import dataclass, field
from typing import Any, Dict, List, Optional, Tuple

from .facts import Facts, FuncInfo, Module, AnalysisError, norm, literal_const, _NOCONST

MAX_PATHS = 4000
MAX_INLINE = 9

PURE_BUILTINS = {'isinstance', 'len', 'callable', 'issubclass', 'hasattr', 'id', 'type'}


class Unrecognised(AnalysisError):
    pass


PURE_STR_METHODS = frozenset('''upper lower title capitalize casefold swapcase strip lstrip rstrip replace startswith endswith
    split rsplit partition rpartition removeprefix removesuffix zfill center ljust rjust isdigit isalpha isalnum isidentifier
    isupper islower isspace find rfind count'''.split())


# --------------------------------------------------------------------- values
class ListVal:
    """A list whose spine is known (elements are terms or ('star', term))."""
    __slots__ = ('elts', 'oid')

    def __init__(self, elts, oid):
        self.elts = list(elts)
        self.oid = oid

    def concrete(self) -> bool:
        return not any(isinstance(e, tuple) and e and e[0] == 'star' for e in self.elts)

    def __repr__(self):
        return 'ListVal#%d%r' % (self.oid, self.elts)


class DictVal:
    __slots__ = ('items', 'oid', 'cls')

    def __init__(self, items, oid, cls=None):
        self.items = list(items)   # (k, v) pairs or ('dstar', term)
        self.oid = oid
        self.cls = cls             # qualified name of a package class deriving from dict, when the dict is an instance of one

    def __repr__(self):
        return 'DictVal#%d%r' % (self.oid, self.items)


class ProdVal:
    """The ``p`` argument of a PLY grammar action, for one alternative."""

    def __init__(self, lhs, syms, values):
        self.lhs = lhs
        self.syms = list(syms)          # rhs symbol names
        self.values = list(values)      # semantic value per rhs symbol (index 0 = p[1])
        self.result = ('const', None)   # PLY initialises p[0] to None
        self.result_set = False


class GlobalsVal:
    """globals() (or vars()/locals() at module level) while a module body is executed: the module's bindings themselves."""
    __slots__ = ('env', 'modname')

    def __init__(self, env, modname):
        self.env = env
        self.modname = modname

    def __repr__(self):
        return '<globals of %s>' % self.modname


class PartialVal:
    """functools.partial(func, *args)"""
    __slots__ = ('func', 'args', 'kwargs')

    def __init__(self, func, args, kwargs):
        self.func = func
        self.args = list(args)
        self.kwargs = list(kwargs)

    def __repr__(self):
        return '<partial %r>' % (self.func,)


class Closure:
    __slots__ = ('node', 'env', 'module', 'qual', 'cid', 'cls', 'outer')

    def __init__(self, node, env, module, qual, cid, cls, outer):
        self.node = node
        self.env = env
        self.module = module
        self.qual = qual
        self.cid = cid
        self.cls = cls
        self.outer = outer

    def __repr__(self):
        return '<closure %s>' % self.qual


def has_live(v) -> bool:
    """Does the value contain an object the evaluator models by reference (closure, known list/dict spine)?"""
    if isinstance(v, (ListVal, DictVal, Closure)):
        return True
    if isinstance(v, tuple):
        return any(has_live(x) for x in v)
    return False


def keep(v):
    """freeze(v) unless that would lose a closure or a known spine held inside."""
    return v if has_live(v) else freeze(v)


def freeze(v, _depth=0):
    """Immutable, printable form of a value."""
    if isinstance(v, ExitStackVal):
        return ('exitstack', v.oid)
    if isinstance(v, GlobalsVal):
        return ('globals', v.modname)
    if isinstance(v, ListVal):
        return ('list',) + tuple(freeze(e, _depth + 1) for e in v.elts)
    if isinstance(v, DictVal):
        return ('dict',) + tuple(
            ('dstar', freeze(i[1])) if i[0] == 'dstar' else (freeze(i[0]), freeze(i[1])) for i in v.items)
    if isinstance(v, ProdVal):
        return ('prod', v.lhs)
    if isinstance(v, Closure):
        return ('closure', v.qual, v.cid)
    if isinstance(v, PartialVal):
        return ('partial', freeze(v.func), tuple(freeze(a) for a in v.args))
    if isinstance(v, tuple):
        return tuple(freeze(x, _depth + 1) for x in v)
    return v


def show(t) -> str:
    t = freeze(t)
    if not isinstance(t, tuple) or not t:
        return repr(t)
    k = t[0]
    if k == 'const':
        return repr(t[1])
    if k == 'param':
        return t[1]
    if k == 'ref':
        return t[2].rsplit('.', 1)[-1] if t[1] in ('fn', 'cls') else t[2]
    if k == 'attr':
        return '%s.%s' % (show(t[1]), t[2])
    if k == 'sub':
        return '%s[%s]' % (show(t[1]), show(t[2]))
    if k in ('call', 'pcall'):
        args = t[3] if k == 'call' else t[2]
        kw = t[4] if k == 'call' else ()
        f = show(t[2]) if k == 'call' else t[1]
        a = [show(x) for x in args] + ['%s=%s' % (n, show(x)) for n, x in kw]
        return '%s(%s)' % (f, ', '.join(a))
    if k == 'new':
        return '%s(%s)' % (t[1].rsplit('.', 1)[-1], ', '.join('%s=%s' % (n, show(x)) for n, x in t[2]))
    if k == 'binop':
        return '(%s %s %s)' % (show(t[2]), t[1], show(t[3]))
    if k == 'cmp':
        return '(%s %s %s)' % (show(t[2]), t[1], show(t[3]))
    if k == 'unop':
        return '(%s%s)' % (t[1], show(t[2]))
    if k == 'not':
        return '(not %s)' % show(t[1])
    if k == 'list':
        return '[%s]' % ', '.join(show(x) for x in t[1:])
    if k == 'tuple':
        return '(%s,)' % ', '.join(show(x) for x in t[1:])
    if k == 'set':
        return '{%s}' % ', '.join(show(x) for x in t[1:])
    if k == 'dict':
        return '{%s}' % ', '.join(
            '**' + show(i[1]) if i and i[0] == 'dstar' else '%s: %s' % (show(i[0]), show(i[1])) for i in t[1:])
    if k == 'star':
        return '*' + show(t[1])
    if k == 'elem':
        return 'each(%s)' % show(t[1])
    if k == 'slice':
        return 'slice(%s:%s:%s)' % tuple(show(x) for x in t[1:4])
    if k == 'sym':
        return '$%s' % t[1]
    if k == 'tok':
        return '$%s' % t[1]
    if k == 'symlist':
        return '$%s' % t[1]
    if k == 'comp':
        return '%s-comp(%s for %s)' % (t[1], show(t[2]), ', '.join(show(g) for g in t[3]))
    if k == 'fstr':
        return 'f"%s"' % ''.join(p[1] if p[0] == 'const' and isinstance(p[1], str) else '{%s}' % show(p) for p in t[1:])
    if k == 'closure':
        return '<closure %s>' % t[1]
    if k == 'super':
        return 'super()'
    if k == 'unknown':
        return '?%s' % (t[1],)
    if k == 'phi':
        return 'phi(%s)' % t[2]
    if k == 'exc':
        return 'exc'
    if k == 'prod':
        return 'p'
    return '(%s)' % ' '.join(show(x) if isinstance(x, tuple) else str(x) for x in t)


# --------------------------------------------------------------------- events
@dataclass
class Event:
    kind: str
    node: Optional[ast.AST]
    ctx: tuple
    eid: int
    fn: str
    d: Dict[str, Any] = field(default_factory=dict)

    def __getattr__(self, k):
        try:
            return self.__dict__['d'][k]
        except KeyError:
            raise AttributeError(k)

    @property
    def line(self) -> int:
        return getattr(self.node, 'lineno', 0) if self.node is not None else 0

    def text(self) -> str:
        return norm(self.node) if self.node is not None else self.kind

    def in_ctx(self, kind: str) -> List[tuple]:
        return [c for c in self.ctx if c[0] == kind]

    def attr_safe(self):
        return self.d.get('attr')

    def depth(self) -> int:
        return len(self.in_ctx('inline'))

    def __repr__(self):
        dd = {k: show(v) if isinstance(v, (tuple, ListVal, DictVal)) else v for k, v in self.d.items() if k != 'handlers'}
        return 'Event(%s #%d %s %s)' % (self.kind, self.eid, self.fn.rsplit('.', 1)[-1], dd)


@dataclass
class Path:
    events: List[Event]
    outcome: Tuple[str, Any]         # ('return', term) | ('raise', term) | ('genend', None)
    assumptions: List[Tuple[Any, bool, Optional[ast.AST]]]
    choices: List[int]
    env: Dict[str, Any]
    closures: List[Closure]
    prod: Optional[ProdVal] = None

    def calls(self, pred=None) -> List[Event]:
        return [e for e in self.events if e.kind == 'call' and (pred is None or pred(e))]

    @property
    def normal(self) -> bool:
        return self.outcome[0] in ('return', 'genend')


class _Signal(Exception):
    pass


class _Return(_Signal):
    def __init__(self, value):
        self.value = value


class _Raise(_Signal):
    def __init__(self, exc, node=None):
        self.exc = exc
        self.node = node


class _Break(_Signal):
    pass


class _Continue(_Signal):
    pass


class ExitStackVal:
    """contextlib.ExitStack(): callbacks registered while the with-block runs, called in reverse order when it is left."""
    __slots__ = ('callbacks', 'oid')

    def __init__(self, oid):
        self.callbacks = []
        self.oid = oid

    def __repr__(self):
        return 'ExitStack#%d' % self.oid


class IterVal(ListVal):
    """An iterator over a known spine: next() consumes from the front; everything else treats it like the list of
    what is left."""


class _NeedMoreChoices(Exception):
    pass


class _Outer(_Signal):
    """A return/break/continue of the code that consumes an inlined generator, travelling through the generator's frames
    (so that its finally blocks run) without being mistaken for the generator's own control flow."""
    def __init__(self, sig):
        self.sig = sig


class Frame:
    def __init__(self, module: Module, qual: str, cls: Optional[str], env=None, outer=None, self_name=None):
        self.module = module
        self.qual = qual
        self.cls = cls
        self.env: Dict[str, Any] = env if env is not None else {}
        self.outer: Optional['Frame'] = outer
        self.self_name = self_name
        self.globals_declared: set = set()
        self.annotations: Dict[str, ast.AST] = {}
        self.is_gen = False


BIN_OPS = {ast.Add: '+', ast.Sub: '-', ast.Mult: '*', ast.Div: '/', ast.FloorDiv: '//', ast.Mod: '%', ast.Pow: '**',
           ast.LShift: '<<', ast.RShift: '>>', ast.BitOr: '|', ast.BitAnd: '&', ast.BitXor: '^', ast.MatMult: '@'}
CMP_OPS = {ast.Eq: '==', ast.NotEq: '!=', ast.Lt: '<', ast.LtE: '<=', ast.Gt: '>', ast.GtE: '>=', ast.Is: 'is',
           ast.IsNot: 'is not', ast.In: 'in', ast.NotIn: 'not in'}
UN_OPS = {ast.USub: '-', ast.UAdd: '+', ast.Invert: '~'}


def is_const(t) -> bool:
    return isinstance(t, tuple) and len(t) == 2 and t[0] == 'const'


class SymExec:
    """Symbolic execution of one function (all paths)."""

    def __init__(self, facts: Facts, fi: FuncInfo, overrides: Optional[Dict[Any, Any]] = None,
                 args: Optional[Dict[str, Any]] = None, inline: bool = True, closure: Optional[Closure] = None,
                 max_paths: int = MAX_PATHS):
        self.facts = facts
        self.fi = fi
        self.overrides = overrides or {}
        self.arg_bind = args or {}
        self.inline = inline
        self.closure = closure
        self.max_paths = max_paths
        # per path
        self.events: List[Event] = []
        self.assumed: Dict[Any, bool] = {}
        self.eqs: Dict[Any, Any] = {}
        self.neqs: Dict[Any, set] = {}
        self.assump_log: List[Tuple[Any, bool, Optional[ast.AST]]] = []
        self.ctx: List[tuple] = []
        self.counter = 0
        self.choices: List[int] = []
        self.pos = 0
        self.taken: List[Tuple[int, int]] = []
        self.stack: List[str] = []
        self.closures: List[Closure] = []
        self.fn_stack: List[str] = []
        self.prod: Optional[ProdVal] = None
        self.module_env: Dict[str, Dict[str, Any]] = {}     # module name -> bindings made while executing its body
        self.yield_handlers: List[Tuple[Any, Any]] = []     # (generator frame, handler) of generators inlined at their consumer
        self.heap: Dict[Any, Dict[str, Any]] = {}            # attributes stored on objects created on this path (by construction id)
        self.created: set = set()                            # construction ids of the objects created on this path
        self.pattr: Dict[Any, Any] = {}                      # (object term, attribute) -> value stored on this path since the last opaque call

    # ----------------------------------------------------------- path driver
    def run(self) -> List[Path]:
        paths: List[Path] = []
        pending: List[List[int]] = [[]]
        while pending:
            prefix = pending.pop()
            p = self._run_once(prefix)
            paths.append(p)
            if len(paths) > self.max_paths:
                raise Unrecognised('path explosion in %s (> %d paths)' % (self.fi.qual, self.max_paths))
            # schedule alternatives for choices made beyond the prefix
            for i in range(len(prefix), len(self.taken)):
                chosen, n = self.taken[i]
                for alt in range(chosen + 1, n):
                    pending.append([c for c, _ in self.taken[:i]] + [alt])
        paths.sort(key=lambda p: p.choices)
        return paths

    def _reset(self, prefix):
        self.events = []
        self.assumed = {}
        self.eqs = {}
        self.neqs = {}
        self.assump_log = []
        self.ctx = []
        self.counter = 0
        self.choices = list(prefix)
        self.pos = 0
        self.taken = []
        self.stack = []
        self.closures = []
        self.fn_stack = [self.fi.qual]
        self.prod = None
        self.yield_handlers = []
        self.heap = {}
        self.created = set()
        self.pattr = {}

    def _run_once(self, prefix) -> Path:
        self._reset(prefix)
        fi = self.fi
        if self.closure is not None:
            c = self.closure
            fr = Frame(c.module, c.qual, c.cls, env={}, outer=c.outer)
        elif getattr(fi, 'captured', None) is not None:
            fr = Frame(fi.module, fi.qual, fi.cls, env={}, outer=fi.captured.outer)
        else:
            fr = Frame(fi.module, fi.qual, fi.cls)
        self._bind_params(fr, fi.node, None, None, top=True)
        self.top_frame = fr
        self.stack = [fi.qual]
        outcome: Tuple[str, Any]
        try:
            if self.closure is None and isinstance(fi.node, ast.FunctionDef) and self.package_decorators(fi.module, fi.node) \
                    and fi.qual in self.facts.functions:
                self.stack = []
                w = self.decorated_value(fi.module, fi.node, fi.qual)
                a_ = fi.node.args
                cargs = [fr.env[x.arg] for x in a_.posonlyargs + a_.args]
                if a_.vararg:
                    va = fr.env[a_.vararg.arg]
                    if isinstance(va, tuple) and va[:1] == ('tuple',) and not any(isinstance(x, tuple) and x[:1] == ('star',) for x in va[1:]):
                        cargs.extend(va[1:])
                    else:
                        cargs.append(('star', va))
                ckw = [(x.arg, fr.env[x.arg]) for x in a_.kwonlyargs]
                if a_.kwarg:
                    ckw.append((None, fr.env[a_.kwarg.arg]))
                if freeze(w) == ('ref', 'fnraw', fi.qual):
                    # the decorators hand the function back unchanged (registration decorators)
                    self.stack = [fi.qual]
                    v = self._exec_body_of(fi.node, fr)
                else:
                    v = self.call(w, cargs, ckw, fi.node, fr)
            else:
                v = self._exec_body_of(fi.node, fr)
            outcome = ('return', v)
        except _Return as r:
            outcome = ('return', r.value)
        except _Raise as r:
            outcome = ('raise', r.exc)
        if fr.is_gen and outcome[0] == 'return':
            outcome = ('genend', outcome[1])
        return Path(self.events, (outcome[0], freeze(outcome[1])), list(self.assump_log),
                    [c for c, _ in self.taken], dict(fr.env), list(self.closures), self.prod)

    def package_decorators(self, module, node):
        """Decorators of a def that are package functions (or calls of package functions); others are transparent here."""
        out = []
        for d in getattr(node, 'decorator_list', []):
            target = d.func if isinstance(d, ast.Call) else d
            r = self.facts.resolve_expr(module, target)
            if r[0] == 'fn':
                out.append(d)
            elif isinstance(target, ast.Attribute) and isinstance(target.value, ast.Name):
                # @REGISTRY.method(...) where REGISTRY is a module-level instance of a package class
                vals = module.assigns.get(target.value.id)
                if vals and len(vals) == 1 and isinstance(vals[0], ast.Call):
                    rc = self.facts.resolve_expr(module, vals[0].func)
                    if rc[0] == 'cls' and self.facts.find_method(rc[1], target.attr):
                        out.append(d)
        return out

    def decorated_value(self, module, node, qual, fr_mod=None):
        """The callable a decorated def is bound to: decorators applied (innermost first) to the raw function."""
        cur: Any = ('ref', 'fnraw', qual)
        mfr = Frame(module, module.name + '.<decorators>', None)
        n_events = len(self.events)
        saved_ctx = list(self.ctx)
        for d in reversed(self.package_decorators(module, node)):
            dec = self.ev(d, mfr)
            cur = self.call(dec, [cur], [], d, mfr)
        # decoration happened at import time: what it did then is not an effect of the call being analysed
        del self.events[n_events:]
        self.ctx = saved_ctx
        return cur

    def _exec_body_of(self, node, fr: Frame):
        fr.is_gen = _is_generator(node)
        if isinstance(node, ast.Lambda):
            return self.ev(node.body, fr)
        self.exec_block(node.body, fr)
        return ('const', None)

    def choose(self, n: int, label: str = '') -> int:
        if self.pos < len(self.choices):
            c = self.choices[self.pos]
        else:
            c = 0
        self.pos += 1
        self.taken.append((c, n))
        if len(self.taken) > 64:
            raise Unrecognised('more than 64 decisions on one path of %s' % self.fi.qual)
        return c

    def fresh(self) -> int:
        self.counter += 1
        return self.counter

    def emit(self, kind: str, node, **d) -> Event:
        e = Event(kind, node, tuple(self.ctx), self.fresh(), self.fn_stack[-1], d)
        self.events.append(e)
        if kind == 'call' and self.pattr and not d.get('ctor'):
            f_ = d.get('func')
            pure_ = isinstance(f_, tuple) and f_[:2] == ('ref', 'builtin') and f_[2] in ('isinstance', 'len', 'str', 'int', 'bool', 'repr', 'type', 'id')
            if not pure_ and not (d.get('resolved') and d.get('resolved') in self.facts.functions):
                self.pattr = {}         # a callee the path does not go into may change any attribute it can reach
        return e

    # ------------------------------------------------------------ parameters
    def _bind_params(self, fr: Frame, node, args, kwargs, top=False):
        a = node.args
        names = [x.arg for x in a.posonlyargs + a.args]
        anns = {x.arg: x.annotation for x in a.posonlyargs + a.args + a.kwonlyargs if x.annotation is not None}
        fr.annotations.update(anns)
        defaults = [None] * (len(names) - len(a.defaults)) + list(a.defaults)
        if top:
            for i, n in enumerate(names):
                if n in self.arg_bind:
                    fr.env[n] = self.arg_bind[n]
                else:
                    fr.env[n] = ('param', n)
            if names and fr.cls and _has_decorator(node, 'classmethod'):
                fr.env[names[0]] = ('ref', 'cls', fr.cls)
            elif names and fr.cls and not _is_static(node):
                fr.self_name = names[0]
            if a.vararg:
                fr.env[a.vararg.arg] = self.arg_bind.get(a.vararg.arg, ('param', '*' + a.vararg.arg))
            for x in a.kwonlyargs:
                fr.env[x.arg] = self.arg_bind.get(x.arg, ('param', x.arg))
            if a.kwarg:
                fr.env[a.kwarg.arg] = self.arg_bind.get(a.kwarg.arg, ('param', '**' + a.kwarg.arg))
            return True
        # call binding
        args = list(args)
        # pure forwarding  f(*args, **kwargs)  from a wrapper whose own parameters are *args/**kwargs: the callee sees the
        # caller's arguments unchanged, so its parameters stand for themselves
        stars = [x for x in args if isinstance(x, tuple) and x and x[0] == 'star']
        dstars = [v for k, v in (kwargs if isinstance(kwargs, list) else list(dict(kwargs).items())) if k is None]
        if (stars or dstars) and all(isinstance(x[1], tuple) and x[1][:1] == ('param',) and str(x[1][1]).startswith('*') for x in stars) \
                and all(isinstance(v, tuple) and v[:1] == ('param',) and str(v[1]).startswith('**') for v in dstars) \
                and len(stars) <= 1 and len(dstars) <= 1 and len(args) == len(stars) and \
                all(k is None for k, _ in (kwargs if isinstance(kwargs, list) else list(dict(kwargs).items()))):
            for n in names:
                fr.env[n] = ('param', n)
            if a.vararg:
                fr.env[a.vararg.arg] = ('param', '*' + a.vararg.arg)
            for x in a.kwonlyargs:
                fr.env[x.arg] = ('param', x.arg)
            if a.kwarg:
                fr.env[a.kwarg.arg] = ('param', '**' + a.kwarg.arg)
            if names and fr.cls and fr.self_name is None and not _is_static(node):
                fr.self_name = names[0]
            return True
        kwargs = dict(kwargs)
        star_at = [i for i, x in enumerate(args) if isinstance(x, tuple) and x and x[0] == 'star']
        if any(k is None for k in kwargs):
            return False
        if star_at and not (a.vararg and star_at[0] >= len(names)):
            return False        # a starred argument may only feed *args (every named parameter is bound before it)
        if names and fr.cls and fr.self_name is None and not _is_static(node):
            fr.self_name = names[0]
        for i, n in enumerate(names):
            if i < len(args):
                fr.env[n] = args[i]
            elif n in kwargs:
                fr.env[n] = kwargs.pop(n)
            elif defaults[i] is not None:
                fr.env[n] = self.ev(defaults[i], Frame(fr.module, fr.qual + '.<defaults>', None))
            else:
                return False
        rest = args[len(names):]
        if rest and not a.vararg:
            return False
        if a.vararg:
            fr.env[a.vararg.arg] = ('tuple',) + tuple(rest)
        for x, d in zip(a.kwonlyargs, a.kw_defaults):
            if x.arg in kwargs:
                fr.env[x.arg] = kwargs.pop(x.arg)
            elif d is not None:
                fr.env[x.arg] = self.ev(d, Frame(fr.module, fr.qual + '.<defaults>', None))
            else:
                return False
        if kwargs and not a.kwarg:
            return False
        if a.kwarg:
            fr.env[a.kwarg.arg] = DictVal([(('const', k), v) for k, v in kwargs.items()], self.fresh())
        return True

    # ------------------------------------------------------------ statements
    def exec_block(self, stmts, fr: Frame):
        for st in stmts:
            self.exec_stmt(st, fr)

    def exec_stmt(self, st, fr: Frame):
        m = getattr(self, 'st_' + type(st).__name__, None)
        if m is None:
            raise Unrecognised('%s: statement kind %s not modelled (%s:%d)' % (
                fr.qual, type(st).__name__, fr.module.rel, getattr(st, 'lineno', 0)))
        return m(st, fr)

    def st_Pass(self, st, fr):
        pass

    def st_Expr(self, st, fr):
        if isinstance(st.value, ast.Constant):
            return
        self.ev(st.value, fr)

    def st_Assign(self, st, fr):
        v = self.ev(st.value, fr)
        for t in st.targets:
            self.assign(t, v, fr, st)

    def st_AnnAssign(self, st, fr):
        if isinstance(st.target, ast.Name):
            fr.annotations[st.target.id] = st.annotation
        if st.value is not None:
            self.assign(st.target, self.ev(st.value, fr), fr, st)

    def st_AugAssign(self, st, fr):
        op = BIN_OPS.get(type(st.op), '?')
        t = st.target
        if isinstance(t, ast.Name):
            cur = self.load_name(t.id, fr, t)
            val = self.ev(st.value, fr)
            if isinstance(cur, ListVal) and op == '+' and isinstance(val, ListVal):
                cur.elts.extend(val.elts)
                self.emit('aug_name', st, name=t.id, op=op, value=val, cur=cur)
                return
            self.emit('aug_name', st, name=t.id, op=op, value=val, cur=cur)
            new = self.binop(op, cur, val, st)
            self.store_name(t.id, new, fr, st)
        elif isinstance(t, ast.Attribute):
            obj = self.ev(t.value, fr)
            val = self.ev(st.value, fr)
            hk_ = self._heap_key(obj)
            if hk_ is not None:
                n_ev_ = len(self.events)
                cur_ = self.attr(obj, t.attr, t, fr)
                new_ = self.binop(op, cur_, val, st) if not (isinstance(cur_, ListVal) and isinstance(val, ListVal) and op == '+') else None
                del self.events[n_ev_:]                 # the update is reported as one aug_attr event, below
                if new_ is None:
                    cur_.elts.extend(val.elts)
                else:
                    self.heap.setdefault(hk_, {})[t.attr] = new_
            if hk_ is None and not isinstance(obj, (ProdVal, Closure, ListVal, DictVal)):
                k_ = (freeze(obj), t.attr)
                cur_ = freeze(self.pattr.get(k_, ('attr', k_[0], t.attr)))
                fval_ = freeze(val)
                if is_const(cur_) and is_const(fval_) and op in ('+', '-') and all(isinstance(x[1], int) and not isinstance(x[1], bool) for x in (cur_, fval_)):
                    self.pattr[k_] = ('const', cur_[1] + fval_[1] if op == '+' else cur_[1] - fval_[1])
                else:
                    self.pattr[k_] = ('binop', op, cur_, fval_)
            self.emit('aug_attr', st, obj=obj, attr=t.attr, op=op, value=val)
        elif isinstance(t, ast.Subscript):
            obj = self.ev(t.value, fr)
            idx = self.ev(t.slice, fr)
            val = self.ev(st.value, fr)
            self.emit('aug_sub', st, obj=obj, index=idx, op=op, value=val, handlers=self._handlers())
        else:
            raise Unrecognised('augmented assignment target %s' % norm(t))

    def st_Return(self, st, fr):
        if isinstance(st.value, ast.GeneratorExp) and self.package_generator(st.value.generators[0].iter, fr) is not None \
                and not any(g.is_async for g in st.value.generators):
            # `return (elt for x in gen() if cond)`: to the caller this function is the generator
            #     for x in gen():  if cond:  yield elt
            fr.is_gen = True
            self.exec_block(self._genexp_as_loop(st.value, st), fr)
            raise _Return(('const', None))
        v = self.ev(st.value, fr) if st.value is not None else ('const', None)
        self.emit('return', st, value=v)
        raise _Return(v)

    def st_Raise(self, st, fr):
        exc = self.ev(st.exc, fr) if st.exc is not None else ('unknown', 'reraise')
        if st.cause is not None:
            self.ev(st.cause, fr)
        self.emit('raise', st, exc=exc)
        raise _Raise(exc, st)

    def st_Delete(self, st, fr):
        for t in st.targets:
            if isinstance(t, ast.Subscript):
                obj = self.ev(t.value, fr)
                idx = self.ev(t.slice, fr)
                self.emit('del_sub', st, obj=obj, index=idx, handlers=self._handlers())
            elif isinstance(t, ast.Attribute):
                obj = self.ev(t.value, fr)
                self.emit('del_attr', st, obj=obj, attr=t.attr)
            elif isinstance(t, ast.Name):
                fr.env.pop(t.id, None)
            else:
                raise Unrecognised('del target %s' % norm(t))

    def st_Assert(self, st, fr):
        self.ev(st.test, fr)

    def st_Global(self, st, fr):
        fr.globals_declared.update(st.names)

    def st_Nonlocal(self, st, fr):
        fr.globals_declared.update(st.names)

    def st_Import(self, st, fr):
        self.emit('import', st, names=[a.name for a in st.names])
        for a in st.names:
            fr.env[a.asname or a.name.split('.')[0]] = ('ref', 'extmod', a.name if a.asname else a.name.split('.')[0])

    def st_ImportFrom(self, st, fr):
        self.emit('import', st, names=['%s.%s' % (st.module, a.name) for a in st.names])
        for a in st.names:
            r = self.facts.resolve_dotted('%s.%s' % (st.module, a.name))
            fr.env[a.asname or a.name] = self.ref(r)

    def st_FunctionDef(self, st, fr):
        c = Closure(st, dict(fr.env), fr.module, fr.qual + '.' + st.name, self.fresh(), fr.cls, fr)
        self.closures.append(c)
        for d in st.decorator_list:
            self.ev(d, fr)
        fr.env[st.name] = c

    def st_ClassDef(self, st, fr):
        raise Unrecognised('class definition inside function %s' % fr.qual)

    def st_If(self, st, fr):
        c = self.ev(st.test, fr)
        if self.truth(c, st.test):
            self.exec_block(st.body, fr)
        else:
            self.exec_block(st.orelse, fr)

    def st_For(self, st, fr):
        pg = self.package_generator(st.iter, fr)
        if pg is not None:
            q, fi, func = pg

            def body(v):
                self.assign(st.target, v, fr, st)
                self.exec_block(st.body, fr)
            try:
                if self.inline_generator(q, fi, func, st.iter, fr, self._consume(body)):
                    self.exec_block(st.orelse, fr)
                    return
            except _Break:
                return
        it = self.ev(st.iter, fr)
        if isinstance(it, tuple) and it[:1] == ('new',) and len(it) > 2 and it[1] in self.facts.classes and self._namedtuple_fields(it[1]) is not None:
            it = ('tuple',) + tuple(v_ for _, v_ in it[2])        # iterating a NamedTuple: its fields in order
        if isinstance(it, tuple) and it and it[0] == 'tuple' and len(it) > 1 and \
                not any(isinstance(x, tuple) and x and x[0] == 'star' for x in it[1:]):
            it = ListVal(list(it[1:]), self.fresh())
        fit = freeze(it)
        if isinstance(fit, tuple) and fit[:2] == ('ref', 'cls') and self._enum_members(fit[2]) is not None:
            it = ListVal([('ref', 'enum', fit[2] + '.' + n_) for n_, _ in self._enum_members(fit[2])], self.fresh())
            fit = freeze(it)
        if isinstance(fit, tuple) and fit[:1] == ('call',) and fit[2] == ('ref', 'builtin', 'iter') and len(fit[3]) == 2 and not fit[4]:
            # for x in iter(f, sentinel):   ==   while True: x = f(); if x == sentinel: break; ...
            callee, sentinel = fit[3]
            lid = self.fresh()
            for n in _assigned_names(st.body, fr.env):
                if n in fr.env:
                    fr.env[n] = ('phi', lid, n, freeze(fr.env[n]))
            self.ctx.append(('loop', lid, fit, st))
            try:
                v = self.call(callee, [], [], st.iter, fr)
                c = self.compare('is' if sentinel == ('const', None) else '==', v, sentinel, st.iter)
                self.emit('loop_test', st, cond=('not', freeze(c)))
                if self.truth(c, st.iter):
                    exhausted = True
                else:
                    exhausted = False
                    self.assign(st.target, v, fr, st)
                    try:
                        self.exec_block(st.body, fr)
                    except _Continue:
                        pass
                    except _Break:
                        return
            finally:
                self.ctx.pop()
            self.exec_block(st.orelse, fr)
            return
        # a module-level dispatch table scanned entry by entry:  for name, fn in TABLE.items(): if name == op: ...
        if isinstance(fit, tuple) and fit[:1] == ('call',) and isinstance(fit[2], tuple) and fit[2][:1] == ('attr',) and \
                fit[2][2] in ('items', 'keys', 'values') and not fit[3] and not fit[4] and \
                isinstance(fit[2][1], tuple) and fit[2][1][:2] == ('ref', 'modvar') and len(fit[2][1]) == 3:
            tab_ = self.modvar_table(fit[2][1][2]) if self._table_contained(fit[2][1][2]) else None
            if tab_ and len(tab_) <= 32 and all(not isinstance(k_, tuple) for _m, k_, _v in tab_):
                elts_ = []
                for _m, k_, _v in tab_:
                    found_, val_ = self.modvar_table_entry(fit[2][1][2], k_) or (False, None)
                    if not found_:
                        elts_ = None
                        break
                    kt_ = ('const', k_)
                    elts_.append(('tuple', kt_, val_) if fit[2][2] == 'items' else kt_ if fit[2][2] == 'keys' else val_)
                if elts_:
                    it = ListVal(elts_, self.fresh())
        if isinstance(it, ListVal) and it.concrete() and len(it.elts) <= 32:
            # unroll over a known spine
            try:
                for el in list(it.elts):
                    self.assign(st.target, el, fr, st)
                    try:
                        self.exec_block(st.body, fr)
                    except _Continue:
                        continue
                else:
                    self.exec_block(st.orelse, fr)
            except _Break:
                pass
            return
        lid = self.fresh()
        if isinstance(it, tuple) and it and it[0] == 'tuple' and len(it) == 1:
            self.exec_block(st.orelse, fr)
            return
        # summary: zero iterations or "an" iteration
        if self.choose(2, 'loop') == 0:
            self.emit('loop_skip', st, iter=it, lid=lid)
            self.exec_block(st.orelse, fr)
            return
        self._summarise_loop(st, fr, lid, it)

    def _summarise_loop(self, st, fr, lid, it):
        assigned = _assigned_names(st.body, fr.env)
        for n in assigned:
            if n in fr.env:
                fr.env[n] = ('phi', lid, n, freeze(fr.env[n]))
        self.ctx.append(('loop', lid, freeze(it) if it is not None else None, st))
        try:
            if it is not None:
                self.assign(st.target, ('elem', freeze(it), lid), fr, st)
            else:
                c = self.ev(st.test, fr)
                self.emit('loop_test', st, cond=c)
            try:
                self.exec_block(st.body, fr)
            except _Continue:
                pass
            except _Break:
                return
        finally:
            self.ctx.pop()
        self.exec_block(st.orelse, fr)

    def st_While(self, st, fr):
        c = self.ev(st.test, fr)
        if is_const(c) and not c[1]:
            self.exec_block(st.orelse, fr)
            return
        # a test that folds to a constant although it is not written as one (a counter over a known spine): run the loop
        n_iter = 0
        while is_const(c) and c[1] and not isinstance(st.test, ast.Constant) and n_iter < 32:
            n_iter += 1
            try:
                self.exec_block(st.body, fr)
            except _Continue:
                pass
            except _Break:
                return
            c = self.ev(st.test, fr)
            if is_const(c) and not c[1]:
                self.exec_block(st.orelse, fr)
                return
        lid = self.fresh()
        if not (is_const(c) and c[1]):
            if self.choose(2, 'while') == 0:
                self.emit('loop_skip', st, iter=None, lid=lid, cond=c)
                self.exec_block(st.orelse, fr)
                return
        self._summarise_loop(st, fr, lid, None)

    def st_Break(self, st, fr):
        raise _Break()

    def st_Continue(self, st, fr):
        raise _Continue()

    def st_With(self, st, fr):
        # `with gen_cm(...):` where gen_cm is a package generator decorated as a context manager: the body runs at its yield
        if len(st.items) == 1:
            pg = self.package_generator(st.items[0].context_expr, fr)
            if pg is not None and _has_decorator(pg[1].node, 'contextmanager'):
                q, fi, func = pg
                item = st.items[0]

                cell = {}

                def body(v):
                    self.ctx.append(('with', cell.get('term', ('call', 0, freeze(func), (), ())), st))
                    try:
                        if item.optional_vars is not None:
                            self.assign(item.optional_vars, v, fr, st)
                        self.exec_block(st.body, fr)
                    finally:
                        self.ctx.pop()
                if self.inline_generator(q, fi, func, item.context_expr, fr, self._consume(body), cell):
                    return
        # `with Guard(...):` where Guard is a package class with __enter__/__exit__: both run here, __exit__ as a finally
        if len(st.items) == 1 and self.inline:
            item = st.items[0]
            cm = self.ev(item.context_expr, fr)
            fcm = freeze(cm)
            if isinstance(fcm, tuple) and fcm[:1] == ('call',) and fcm[2] == ('ref', 'ext', 'contextlib.suppress') and fcm[3] \
                    and all(isinstance(x, tuple) and x[:1] == ('ref',) and x[1] in ('builtin', 'ext', 'cls') for x in fcm[3]):
                # with suppress(E1, E2): body      ==      try: body / except (E1, E2): pass
                hs_ = self.__dict__.setdefault('_with_handlers', {})
                H = hs_.setdefault(st, ast.copy_location(ast.ExceptHandler(type=None, name=None, body=[ast.Pass()]), st))
                types_ = tuple((x[1], x[2]) for x in fcm[3])
                descr_ = ((types_, H),)
                self.emit('with_enter', st, cm=cm)
                if self.choose(2, 'with-exc') == 1:
                    self.emit('exc_edge', st, types=types_, handler=H, subs=())
                    return                  # an exception of a suppressed class somewhere in the body: execution goes on after the block
                self.ctx.append(('with', fcm, st))
                self.ctx.append(('try', st, descr_))
                try:
                    try:
                        self.exec_block(st.body, fr)
                    finally:
                        self.ctx.pop()
                        self.ctx.pop()
                except _Raise as r:
                    if self._match_handler(descr_, r.exc) is None:
                        raise
                return
            if isinstance(fcm, tuple) and fcm[:1] == ('call',) and fcm[2] == ('ref', 'ext', 'contextlib.ExitStack') and not fcm[3]:
                # with ExitStack() as stack: ... stack.callback(f, *a) ...   ==   try: ... finally: f(*a) (last registered first)
                es = ExitStackVal(self.fresh())
                self.emit('with_enter', st, cm=cm)

                def unwind():
                    self.ctx.append(('finally', st))
                    try:
                        for fn_, a_, kw_, nd_ in reversed(es.callbacks):
                            self.call(fn_, list(a_), list(kw_), nd_, fr)
                    finally:
                        self.ctx.pop()
                self.ctx.append(('with', fcm, st))
                self.ctx.append(('try', st, ()))
                try:
                    try:
                        if item.optional_vars is not None:
                            self.assign(item.optional_vars, es, fr, st)
                        self.exec_block(st.body, fr)
                    finally:
                        self.ctx.pop()
                        self.ctx.pop()
                except _Signal:
                    unwind()
                    raise
                unwind()
                return
            cmcls = fcm[1] if isinstance(fcm, tuple) and fcm and fcm[0] == 'new' else None
            enter_q = self.facts.find_method(cmcls, '__enter__') if cmcls else None
            exit_q = self.facts.find_method(cmcls, '__exit__') if cmcls else None
            if enter_q in self.facts.functions and exit_q in self.facts.functions and enter_q not in self.stack \
                    and exit_q not in self.stack and len(self.stack) < MAX_INLINE:
                self.emit('with_enter', st, cm=cm, cm_class=cmcls)
                v = self._inline_call(enter_q, [cm], [], item.context_expr, ('attr', fcm, '__enter__'))
                # what __exit__ does with an exception, as far as its tests on the exception argument tell: the classes it
                # looks for (isinstance(exc, T) / issubclass(exc_type, T)), with T read off the manager's fields
                exit_node = self.facts.functions[exit_q].node
                eparams = [a.arg for a in exit_node.args.args]
                caught = []
                fields_ = dict(fcm[2]) if len(fcm) > 2 else {}
                for n_ in ast.walk(exit_node):
                    if isinstance(n_, ast.Call) and isinstance(n_.func, ast.Name) and n_.func.id in ('isinstance', 'issubclass') and len(n_.args) == 2 \
                            and isinstance(n_.args[0], ast.Name) and n_.args[0].id in eparams[1:3]:
                        tn_ = n_.args[1]
                        tv = None
                        if isinstance(tn_, ast.Attribute) and isinstance(tn_.value, ast.Name) and tn_.value.id == eparams[0]:
                            tv = fields_.get(tn_.attr)
                        else:
                            r_ = self.facts.resolve_expr(self.facts.functions[exit_q].module, tn_)
                            tv = ('ref', r_[0], r_[1]) if r_[0] in ('builtin', 'ext', 'cls') else None
                        for x_ in ([tv] if not (isinstance(tv, tuple) and tv[:1] == ('tuple',)) else list(tv[1:])):
                            if isinstance(x_, tuple) and x_[:1] == ('ref',) and x_[1] in ('builtin', 'ext', 'cls'):
                                caught.append((x_[1], x_[2]))
                handlers_ = self.__dict__.setdefault('_with_handlers', {})
                H = handlers_.setdefault(st, ast.copy_location(ast.ExceptHandler(type=None, name=None, body=[]), st))
                descr_ = ((tuple(caught), H),) if caught else ()
                if caught and self.choose(2, 'with-exc') == 1:
                    # an exception of a class the manager looks for is raised somewhere in the body
                    exc_ = ('exc', tuple(caught), self.fresh())
                    self.emit('exc_edge', st, types=tuple(caught), handler=H, subs=())
                    self.ctx.append(('finally', st))
                    try:
                        res_ = self._inline_call(exit_q, [cm, ('ref', caught[0][0], caught[0][1]), exc_, ('unknown', 'traceback')], [], st,
                                                 ('attr', fcm, '__exit__'))
                    finally:
                        self.ctx.pop()
                    if is_const(freeze(res_)) and freeze(res_)[1]:
                        return                      # swallowed: execution continues after the with statement
                    raise _Raise(exc_, st)

                def run_exit(exc_args):
                    self.ctx.append(('finally', st))
                    try:
                        return self._inline_call(exit_q, [cm] + exc_args, [], st, ('attr', fcm, '__exit__'))
                    finally:
                        self.ctx.pop()
                self.ctx.append(('with', fcm, st))
                self.ctx.append(('try', st, descr_))
                try:
                    try:
                        if item.optional_vars is not None:
                            self.assign(item.optional_vars, v, fr, st)
                        self.exec_block(st.body, fr)
                    finally:
                        self.ctx.pop()
                        self.ctx.pop()
                except _Raise as r:
                    res = run_exit([('unknown', 'exc-type'), freeze(r.exc) if not isinstance(r.exc, tuple) else r.exc, ('unknown', 'traceback')])
                    if is_const(freeze(res)) and freeze(res)[1] and freeze(res)[1] is not None:
                        return          # __exit__ returned a true constant: the exception is swallowed
                    raise
                except _Signal:
                    run_exit([('const', None)] * 3)
                    raise
                run_exit([('const', None)] * 3)
                return
            frames = 0
            self.emit('with_enter', st, cm=cm)
            self.ctx.append(('with', fcm, st))
            try:
                if item.optional_vars is not None:
                    self.assign(item.optional_vars, ('withas', fcm), fr, st)
                self.exec_block(st.body, fr)
            finally:
                self.ctx.pop()
            return
        frames = 0
        try:
            for item in st.items:
                cm = self.ev(item.context_expr, fr)
                self.emit('with_enter', st, cm=cm)
                self.ctx.append(('with', freeze(cm), st))
                frames += 1
                if item.optional_vars is not None:
                    self.assign(item.optional_vars, ('withas', freeze(cm)), fr, st)
            self.exec_block(st.body, fr)
        finally:
            for _ in range(frames):
                self.ctx.pop()

    def package_generator(self, call_node, fr: Frame):
        """(qualified name, funcinfo, bound-args) if the expression is a call of a package generator function."""
        if not isinstance(call_node, ast.Call) or not self.inline:
            return None
        try_func = call_node.func
        # evaluate the callee expression without side effects on the path: names and attribute chains only
        if not isinstance(try_func, (ast.Name, ast.Attribute)):
            return None
        n_ev = len(self.events)
        func = self.ev(try_func, fr)
        del self.events[n_ev:]
        q = self.resolve_callee(func, fr)
        if not q or q not in self.facts.functions or q in self.stack or len(self.stack) >= MAX_INLINE:
            return None
        fi = self.facts.functions[q]
        if not isinstance(fi.node, ast.FunctionDef) or not _is_generator(fi.node):
            return None
        return q, fi, func

    def inline_generator(self, q, fi, func, call_node, fr: Frame, handler, cell=None):
        """Run the body of a package generator at its consumer: every `yield v` calls handler(v)."""
        args = self._elts(call_node.args, fr)
        kwargs = [(kw.arg, self.ev(kw.value, fr)) for kw in call_node.keywords]
        ff = freeze(func)
        bind_args = list(args)
        if fi.cls and not _is_static(fi.node) and isinstance(ff, tuple) and ff[0] == 'attr' and not (
                isinstance(ff[1], tuple) and ff[1][:2] == ('ref', 'cls')):
            bind_args = [ff[1]] + bind_args
        callee = Frame(fi.module, q, fi.cls)
        ev_ = self.emit('call', call_node, func=ff, args=tuple(freeze(a) for a in args), kwargs=tuple((k, freeze(v)) for k, v in kwargs),
                        resolved=q, handlers=self._handlers(), closure=None, recv_type=None, inlined=True, generator=True)
        if not self._bind_params(callee, fi.node, bind_args, kwargs):
            ev_.d['inlined'] = False
            return False
        if cell is not None:
            cell['term'] = ('call', ev_.eid, ff, tuple(freeze(a) for a in args), tuple((k, freeze(v)) for k, v in kwargs))
        callee.is_gen = True
        self.stack.append(q)
        self.fn_stack.append(q)
        self.ctx.append(('inline', ev_.eid, q))
        self.yield_handlers.append((callee, handler))
        try:
            try:
                self.exec_block(fi.node.body, callee)
            except _Return:
                pass
            except _Outer as o:
                raise o.sig
        finally:
            self.yield_handlers.pop()
            self.ctx.pop()
            self.fn_stack.pop()
            self.stack.pop()
        return True

    def _consume(self, body_fn):
        """Wrap the consumer's body so that its own return/break/continue pass through the generator's frames intact."""
        def handler(v):
            try:
                body_fn(v)
            except _Continue:
                return
            except (_Return, _Break) as sig:
                raise _Outer(sig)
        return handler

    def _handler_descr(self, st: ast.Try, fr: Frame):
        def one(e):
            # a name bound in an enclosing frame (a decorator factory's parameter: `except exc_type`) denotes its value there
            if isinstance(e, ast.Name):
                f: Optional[Frame] = fr
                while f is not None:
                    if e.id in f.env:
                        v = freeze(f.env[e.id])
                        if isinstance(v, tuple) and v[:1] == ('ref',) and v[1] in ('builtin', 'ext', 'cls'):
                            return [(v[1], v[2])]
                        if isinstance(v, tuple) and v[:1] == ('tuple',) and all(isinstance(x, tuple) and x[:1] == ('ref',) for x in v[1:]):
                            return [(x[1], x[2]) for x in v[1:]]
                        break
                    f = f.outer
            r0 = self.facts.resolve_expr(fr.module, e)
            if r0[0] == 'modvar':
                # a module-level tuple of exception classes (`_ERRORS = (TypeError, ParserError)`), also built with `+`
                mod_, _, var_ = r0[1].rpartition('.')
                m_ = self.facts.modules.get(mod_)
                if m_ is not None and len(m_.assigns.get(var_, ())) == 1 and m_.assigns[var_][0] is not None:
                    def parts(n):
                        if isinstance(n, ast.Tuple):
                            return [x for el in n.elts for x in parts(el)] if all(parts(el) is not None for el in n.elts) else None
                        if isinstance(n, ast.BinOp) and isinstance(n.op, ast.Add):
                            a_, b_ = parts(n.left), parts(n.right)
                            return a_ + b_ if a_ is not None and b_ is not None else None
                        if isinstance(n, (ast.Name, ast.Attribute)):
                            return one_in(m_, n, 1)
                        return None
                    got = parts(m_.assigns[var_][0])
                    if got:
                        return got
            return [r0]

        def one_in(m_, n, depth):
            r_ = self.facts.resolve_expr(m_, n)
            if r_[0] == 'modvar':
                mod2, _, var2 = r_[1].rpartition('.')
                m2 = self.facts.modules.get(mod2)
                if m2 is not None and len(m2.assigns.get(var2, ())) == 1 and isinstance(m2.assigns[var2][0], ast.Tuple) and depth < 4:
                    return [x for el in m2.assigns[var2][0].elts for x in one_in(m2, el, depth + 1)]
            return [r_]
        out = []
        for h in st.handlers:
            if h.type is None:
                types = [('builtin', 'BaseException')]
            elif isinstance(h.type, ast.Tuple):
                types = [t for e in h.type.elts for t in one(e)]
            else:
                types = one(h.type)
            out.append((tuple(types), h))
        return tuple(out)

    def _handlers(self):
        """Enclosing try blocks (innermost last) whose *body* we are in."""
        return [c for c in self.ctx if c[0] == 'try']

    def st_Try(self, st, fr):
        descr = self._handler_descr(st, fr)

        def run_final():
            if st.finalbody:
                self.ctx.append(('finally', st))
                try:
                    self.exec_block(st.finalbody, fr)
                finally:
                    self.ctx.pop()

        def run_handler(h, exc):
            self.ctx.append(('handler', st, h))
            try:
                if h.name:
                    fr.env[h.name] = exc
                self.exec_block(h.body, fr)
            finally:
                self.ctx.pop()

        try:
            # implicit exception somewhere in the body -> one path per handler
            k = self.choose(1 + len(st.handlers), 'try') if st.handlers else 0
            if k > 0:
                types, h = descr[k - 1]
                for n in _assigned_names(st.body, fr.env):
                    fr.env[n] = ('unknown', 'maybe-assigned-in-try:%s' % n)
                exc = ('exc', tuple(types), self.fresh())
                # the subscript reads of the body whose operands are plain names/attributes/constants, as they stand on
                # entry to the try block: the candidates for the lookup that failed
                subs = []
                n_ev = len(self.events)
                for n in (x for b_ in st.body for x in ast.walk(b_)):
                    if isinstance(n, ast.Subscript) and isinstance(n.ctx, ast.Load) and all(
                            isinstance(y, (ast.Name, ast.Attribute, ast.Constant, ast.Load)) for part in (n.value, n.slice) for y in ast.walk(part)):
                        try:
                            subs.append((freeze(self.ev(n.value, fr)), freeze(self.ev(n.slice, fr))))
                        except (_Signal, Unrecognised):
                            pass
                del self.events[n_ev:]
                self.emit('exc_edge', st, types=types, handler=h, subs=tuple(subs), earlier=tuple(t_ for j_ in range(k - 1) for t_ in descr[j_][0]))
                run_handler(h, exc)
            else:
                self.ctx.append(('try', st, descr))
                try:
                    try:
                        self.exec_block(st.body, fr)
                    finally:
                        self.ctx.pop()
                    self.exec_block(st.orelse, fr)
                except _Raise as r:
                    h = self._match_handler(descr, r.exc)
                    if h is None:
                        raise
                    run_handler(h, r.exc)
        except _Signal:
            run_final()
            raise
        run_final()

    def _match_handler(self, descr, exc):
        cls = self.exc_class(exc)
        for types, h in descr:
            for t in types:
                v = self.exc_subclass(cls, t)
                if v is True:
                    return h
                if v is None:
                    # undecidable: treat as uncaught by this handler only if the raised class is known
                    # and unrelated; an unknown class forks
                    if self.choose(2, 'exc-match') == 1:
                        return h
        return None

    def exc_class(self, exc):
        """Resolved class ref of a raised term, or None."""
        exc = freeze(exc)
        if isinstance(exc, tuple):
            if exc[0] == 'new':
                return ('cls', exc[1])
            if exc[0] == 'call' and isinstance(exc[2], tuple) and exc[2][0] == 'ref':
                return (exc[2][1], exc[2][2])
            if exc[0] == 'ref':
                return (exc[1], exc[2])
            if exc[0] == 'exc':
                ts = exc[1]
                if len(ts) == 1:
                    return ts[0]
        return None

    def exc_subclass(self, cls, base) -> Optional[bool]:
        if cls is None:
            return None
        if cls == base:
            return True
        ck, cq = cls
        bk, bq = base
        if ck == 'cls':
            if bk == 'cls':
                return self.facts.is_subclass(cq, bq)
            if bk in ('builtin', 'ext'):
                for eb in self.facts.ext_bases(cq):
                    r = self.exc_subclass(('builtin', eb), base)
                    if r:
                        return True
                return False
        if ck == 'builtin' and bk == 'builtin':
            a = getattr(builtins, cq, None)
            b = getattr(builtins, bq, None)
            if isinstance(a, type) and isinstance(b, type):
                return issubclass(a, b)
        if ck == 'builtin' and bk == 'cls':
            return False
        return None

    def st_Match(self, st, fr):
        """match/case over value, singleton, or-, capture and wildcard patterns (with guards), and sequence patterns over a
        tuple display of known length: the same decisions as the equivalent if/elif chain."""
        subj = self.ev(st.subject, fr)
        for case in st.cases:
            if self._match_pattern(case.pattern, subj, fr, st):
                if case.guard is not None and not self.truth(self.ev(case.guard, fr), case.guard):
                    continue
                self.exec_block(case.body, fr)
                return

    def _match_pattern(self, pat, subj, fr, st) -> bool:
        if isinstance(pat, ast.MatchValue):
            return self.truth(self.compare('==', subj, self.ev(pat.value, fr), pat), pat)
        if isinstance(pat, ast.MatchSingleton):
            return self.truth(self.compare('is', subj, ('const', pat.value), pat), pat)
        if isinstance(pat, ast.MatchOr):
            return any(self._match_pattern(p_, subj, fr, st) for p_ in pat.patterns)
        if isinstance(pat, ast.MatchAs):
            if pat.pattern is not None and not self._match_pattern(pat.pattern, subj, fr, st):
                return False
            if pat.name is not None:
                self.store_name(pat.name, subj, fr, st)
            return True
        if isinstance(pat, ast.MatchClass):
            # case C(): / case C(attr=pattern): an isinstance test, then the attribute sub-patterns
            ct = self.ev(pat.cls, fr)
            isin = self.call(('ref', 'builtin', 'isinstance'), [subj, ct], [], pat, fr)
            if not self.truth(isin, pat):
                return False
            if pat.patterns:
                fct = freeze(ct)
                margs = None
                if isinstance(fct, tuple) and fct[:2] == ('ref', 'cls') and fct[2] in self.facts.classes:
                    cv = self._class_attr(fct[2], '__match_args__', exact=True)
                    if isinstance(cv, tuple) and cv[:1] == ('tuple',) and all(is_const(x) for x in cv[1:]):
                        margs = [x[1] for x in cv[1:]]
                    elif any(self.facts.cls(q).is_dataclass for q in self.facts.mro(fct[2]) if q in self.facts.classes):
                        margs = [f_[0] for f_ in self.facts.all_fields(fct[2], ctor=True)]
                if margs is None and len(pat.patterns) == 1 and isinstance(fct, tuple) and fct[:2] == ('ref', 'builtin') \
                        and fct[2] in ('str', 'int', 'float', 'bool', 'list', 'dict', 'tuple', 'set', 'frozenset', 'bytes'):
                    if not self._match_pattern(pat.patterns[0], subj, fr, st):      # case str(x): binds the subject itself
                        return False
                elif margs is None or len(pat.patterns) > len(margs):
                    raise Unrecognised('positional class pattern for %s in %s' % (show(fct), fr.qual))
                else:
                    for nm, sp in zip(margs, pat.patterns):
                        if not self._match_pattern(sp, self.attr(subj, nm, pat, fr), fr, st):
                            return False
            for nm, sp in zip(pat.kwd_attrs, pat.kwd_patterns):
                if not self._match_pattern(sp, self.attr(subj, nm, pat, fr), fr, st):
                    return False
            return True
        if isinstance(pat, ast.MatchMapping):
            raise Unrecognised('mapping pattern in %s' % fr.qual)
        if isinstance(pat, ast.MatchSequence):
            spine = None
            if isinstance(subj, tuple) and subj[:1] == ('tuple',) and not any(isinstance(x, tuple) and x[:1] == ('star',) for x in subj[1:]):
                spine = list(subj[1:])
            elif isinstance(subj, ListVal) and subj.concrete():
                spine = list(subj.elts)
            elif is_const(freeze(subj)) and not isinstance(freeze(subj)[1], (tuple, list)):
                return False                # str / number / None: not a sequence for pattern matching
            if spine is not None:
                stars = [i for i, p_ in enumerate(pat.patterns) if isinstance(p_, ast.MatchStar)]
                if not stars:
                    if len(pat.patterns) != len(spine):
                        return False
                    return all(self._match_pattern(p_, x, fr, st) for p_, x in zip(pat.patterns, spine))
                if len(stars) == 1:
                    k = stars[0]
                    after = len(pat.patterns) - 1 - k
                    if len(spine) < len(pat.patterns) - 1:
                        return False
                    if not all(self._match_pattern(p_, x, fr, st) for p_, x in zip(pat.patterns[:k], spine[:k])):
                        return False
                    if after and not all(self._match_pattern(p_, x, fr, st) for p_, x in zip(pat.patterns[k + 1:], spine[len(spine) - after:])):
                        return False
                    if pat.patterns[k].name is not None:
                        self.store_name(pat.patterns[k].name, ListVal(spine[k:len(spine) - after], self.fresh()), fr, st)
                    return True
            if spine is None and len([p_ for p_ in pat.patterns if isinstance(p_, ast.MatchStar)]) <= 1:
                # a subject whose shape is not known: the pattern may match or not; when it does, the captured names hold
                # the corresponding parts
                if self.choose(2, 'match-seq') == 1:
                    return False
                def bind(q_, sv) -> bool:
                    # the shape is taken to match: captures get their parts, literal sub-patterns decide nothing more, class
                    # sub-patterns are isinstance tests of their part
                    if isinstance(q_, ast.MatchAs):
                        if q_.pattern is not None and not bind(q_.pattern, sv):
                            return False
                        if q_.name is not None:
                            self.store_name(q_.name, sv, fr, st)
                        return True
                    if isinstance(q_, ast.MatchSequence):
                        for j_, r_ in enumerate(q_.patterns):
                            if isinstance(r_, ast.MatchStar):
                                if r_.name is not None:
                                    self.store_name(r_.name, ('unpack*', freeze(sv), j_), fr, st)
                            elif not bind(r_, ('unpack', freeze(sv), j_)):
                                return False
                        return True
                    if isinstance(q_, ast.MatchClass):
                        return self._match_pattern(q_, sv, fr, st)
                    if isinstance(q_, ast.MatchOr):
                        if any(isinstance(x, (ast.MatchAs, ast.MatchSequence)) and not (isinstance(x, ast.MatchAs) and x.name is None and x.pattern is None)
                               for x in q_.patterns):
                            raise Unrecognised('or-pattern with captures on a subject of unknown shape in %s' % fr.qual)
                        return True
                    if isinstance(q_, (ast.MatchValue, ast.MatchSingleton)):
                        return True
                    raise Unrecognised('match pattern %s on a subject of unknown shape in %s' % (type(q_).__name__, fr.qual))
                return bind(pat, subj)
        raise Unrecognised('match pattern %s in %s' % (type(pat).__name__, fr.qual))

    def _heap_key(self, obj):
        """Identity of an object that was created on the path being followed (constructor call), else None."""
        k = None
        if isinstance(obj, tuple):
            if obj[:1] == ('new',) and len(obj) > 3 and isinstance(obj[3], int):
                k = obj[3]
            elif obj[:1] == ('obj',) and len(obj) > 2 and isinstance(obj[2], int):
                k = obj[2]
        return k if k in self.created else None

    # ----------------------------------------------------------- assignments
    def store_name(self, name, v, fr, node):
        if name in fr.globals_declared:
            self.emit('global_store', node, name=name, value=v)
            return
        fr.env[name] = v

    def assign(self, target, v, fr: Frame, node):
        if isinstance(target, ast.Name):
            self.store_name(target.id, v, fr, node)
        elif isinstance(target, (ast.Tuple, ast.List)):
            vs = None
            fv = v
            if isinstance(fv, ListVal) and fv.concrete() and len(fv.elts) == len(target.elts):
                vs = list(fv.elts)
            elif isinstance(fv, tuple) and fv and fv[0] == 'tuple' and len(fv) - 1 == len(target.elts):
                vs = list(fv[1:])
            if isinstance(fv, tuple) and fv[:1] == ('new',) and len(fv) > 2 and self._namedtuple_fields(fv[1]) is not None \
                    and len(fv[2]) == len(target.elts) and not any(isinstance(t, ast.Starred) for t in target.elts):
                vs = [v_ for _, v_ in fv[2]]            # a NamedTuple unpacks to its fields in declaration order
            stars_ = [i for i, t in enumerate(target.elts) if isinstance(t, ast.Starred)]
            spine_ = list(fv.elts) if isinstance(fv, ListVal) and fv.concrete() else (
                list(fv[1:]) if isinstance(fv, tuple) and fv[:1] == ('tuple',) and not any(isinstance(x, tuple) and x[:1] == ('star',) for x in fv[1:]) else None)
            if len(stars_) == 1 and spine_ is not None and len(spine_) >= len(target.elts) - 1:
                # a, *rest, z = <known spine>: the starred name takes the middle part as a new list
                k_ = stars_[0]
                after_ = len(target.elts) - 1 - k_
                for i, t in enumerate(target.elts[:k_]):
                    self.assign(t, spine_[i], fr, node)
                mid_ = spine_[k_:len(spine_) - after_]
                self.assign(target.elts[k_].value, ListVal(mid_, self.fresh()), fr, node)
                for j, t in enumerate(target.elts[k_ + 1:]):
                    self.assign(t, spine_[len(spine_) - after_ + j], fr, node)
                return
            for i, t in enumerate(target.elts):
                if isinstance(t, ast.Starred):
                    self.assign(t.value, ('unpack*', freeze(v), i), fr, node)
                else:
                    self.assign(t, vs[i] if vs is not None else ('unpack', freeze(v), i), fr, node)
        elif isinstance(target, ast.Attribute):
            obj = self.ev(target.value, fr)
            self.emit('store_attr', node, obj=obj, attr=target.attr, value=v)
            hk_ = self._heap_key(obj)
            if hk_ is not None:
                self.heap.setdefault(hk_, {})[target.attr] = v          # later reads of the attribute see this value
            elif not isinstance(obj, (ProdVal, Closure, ListVal, DictVal)):
                self.pattr[(freeze(obj), target.attr)] = keep(v)       # ... also on an object that came from outside
            fo_ = freeze(obj)
            if target.attr == '__doc__' and fr.module.name in self.module_env and isinstance(fo_, tuple) and fo_[:1] == ('ref',) \
                    and fo_[1] in ('fnraw', 'func'):
                # <function>.__doc__ = ... while the module is imported (PLY reads grammar productions / regexes from it)
                self.facts.__dict__.setdefault('_doc_overrides', {})[fo_[2]] = freeze(v)
        elif isinstance(target, ast.Subscript):
            obj = self.ev(target.value, fr)
            idx = self.ev(target.slice, fr)
            if isinstance(obj, ProdVal) and is_const(idx) and idx[1] == 0:
                obj.result = v
                obj.result_set = True
                self.emit('prod_result', node, value=v)
                return
            m_ = self._singleton_method(obj, '__setitem__')
            if m_ is not None:
                self._inline_call(m_, [obj, idx, v], [], node, ('attr', freeze(obj), '__setitem__'))
                return
            if isinstance(obj, tuple) and obj[:2] == ('new', 'collections.ChainMap') and self._heap_key(obj) is not None:
                maps_ = self.heap.get(self._heap_key(obj), {}).get('maps')
                if isinstance(maps_, ListVal) and maps_.elts and not (isinstance(maps_.elts[0], tuple) and maps_.elts[0][:1] == ('star',)):
                    obj = maps_.elts[0]              # ChainMap.__setitem__ writes into the first mapping
            if isinstance(obj, GlobalsVal):
                if not (is_const(freeze(idx)) and isinstance(freeze(idx)[1], str)):
                    raise Unrecognised('globals()[%s] = ...: the name is not a constant' % show(idx))
                obj.env[freeze(idx)[1]] = v
                return
            if isinstance(obj, ListVal) and obj.concrete() and is_const(idx) and isinstance(idx[1], int) \
                    and -len(obj.elts) <= idx[1] < len(obj.elts):
                obj.elts[idx[1]] = v
            if isinstance(obj, DictVal) and is_const(idx):
                obj.items = [i for i in obj.items if not (i[0] != 'dstar' and freeze(i[0]) == idx)] + [(idx, v)]
            self.emit('store_sub', node, obj=obj, index=idx, value=v, handlers=self._handlers())
        elif isinstance(target, ast.Starred):
            self.assign(target.value, v, fr, node)
        else:
            raise Unrecognised('assignment target %s' % norm(target))

    # ----------------------------------------------------------- expressions
    def ref(self, r):
        k, q = r
        if k == 'const':
            return ('const', q)
        if k == 'modvar':
            t = self._const_tuple(q)
            if t is not None:
                return t
            t = self._import_time_const(q)
            if t is not None:
                return t
            if self.module_env:
                # while a module body is executed: a table another package module computed at its own import
                mod_, _, nm_ = q.rpartition('.')
                if mod_ in self.facts.modules and mod_ not in self.module_env:
                    v_ = exec_module_body(self.facts, self.facts.modules[mod_]).get(nm_)
                    if isinstance(v_, (ListVal, DictVal)) or (isinstance(v_, tuple) and v_[:1] in (('tuple',), ('const',))):
                        return v_
        return ('ref', k, q)

    def _class_attr(self, cq: str, name: str, exact: bool):
        """Value of a class-level assignment `NAME = <constant / tuple of constants / dict display>` found along the MRO of cq.
        Instance fields (dataclass fields, attributes stored on self) win over it; for a receiver whose exact class is not
        known the attribute must not be re-defined by a subclass."""
        if any(n == name for n, _, _, _ in self.facts.all_fields(cq)):
            return None
        owner = None
        node = None
        for q in self.facts.mro(cq):
            ci = self.facts.classes.get(q)
            if ci is None:
                continue
            if name in ci.methods:
                return None
            for st in ci.node.body:
                tg = st.targets if isinstance(st, ast.Assign) else ([st.target] if isinstance(st, ast.AnnAssign) and st.value is not None else [])
                if any(isinstance(t, ast.Name) and t.id == name for t in tg):
                    owner, node = q, st.value
                    break
            if owner:
                break
        if owner is None:
            return None
        if not exact:
            for sub in self.facts.subclasses(cq):
                if sub != cq and any(isinstance(st, (ast.Assign, ast.AnnAssign)) and any(
                        isinstance(t, ast.Name) and t.id == name for t in (st.targets if isinstance(st, ast.Assign) else [st.target]))
                        for st in self.facts.cls(sub).node.body):
                    return None
        # written anywhere?  (ClassName.NAME[...] = / self.NAME = ...)  then it is not a constant
        for fi in self.facts.functions.values():
            if '.ply' in fi.module.name:
                continue
            for n in ast.walk(fi.node):
                if isinstance(n, ast.Attribute) and n.attr == name and isinstance(n.ctx, (ast.Store, ast.Del)):
                    return None
                if isinstance(n, ast.Subscript) and isinstance(n.ctx, (ast.Store, ast.Del)) and isinstance(n.value, ast.Attribute) and n.value.attr == name:
                    return None
        m = self.facts.cls(owner).module
        if isinstance(node, ast.Constant):
            return ('const', node.value)
        if isinstance(node, ast.Tuple):
            def conv(n):
                if isinstance(n, ast.Constant):
                    return ('const', n.value)
                if isinstance(n, ast.Tuple) and n.elts:
                    xs = [conv(x) for x in n.elts]
                    return None if any(x is None for x in xs) else ('tuple',) + tuple(xs)
                if isinstance(n, (ast.Name, ast.Attribute)):
                    r = self.facts.resolve_expr(m, n)
                    if r[0] in ('fn', 'cls', 'ext', 'builtin'):
                        return ('ref', r[0], r[1])
                    if r[0] == 'const':
                        return ('const', r[1])
                return None
            return conv(node)
        if isinstance(node, ast.Dict) and node.keys and all(isinstance(k, ast.Constant) for k in node.keys):
            return ('ref', 'modvar', owner + '.' + name)         # a dispatch table: looked up like a module-level one
        if isinstance(node, (ast.Name, ast.Attribute)):
            # scope_stack_class = ScopedDict / grammar_module = rules: a class, function or module the class points at
            r = self.facts.resolve_expr(m, node)
            if r[0] in ('cls', 'fn', 'pkgmod', 'extmod', 'ext', 'builtin'):
                return self.ref(r)
        return None

    def _ctor_option(self, cq: str, name: str):
        """An attribute that holds a keyword-only constructor option: `self.X = X` in __init__ and nowhere else, X a keyword-only
        parameter whose default is a constant.  The analysis follows the stock configuration - the default - and says so
        (a host that passes its own table / factory answers for what that does)."""
        ci = self.facts.classes.get(cq)
        init = ci.methods.get('__init__') if ci is not None else None
        if init is None or not init.args.kwonlyargs:
            return None
        kwd = {a.arg: d for a, d in zip(init.args.kwonlyargs, init.args.kw_defaults) if isinstance(d, ast.Constant)}
        sp = init.args.args[0].arg if init.args.args else None
        src = None
        for fi in self.facts.functions.values():
            if '.ply' in fi.module.name:
                continue
            for n in ast.walk(fi.node):
                if isinstance(n, ast.Attribute) and n.attr == name and isinstance(n.ctx, (ast.Store, ast.Del)):
                    if fi.node is not init:
                        return None
        result = None
        for st in ast.walk(init):
            tgt = st.targets[0] if isinstance(st, ast.Assign) and len(st.targets) == 1 else (st.target if isinstance(st, ast.AnnAssign) and st.value is not None else None)
            if isinstance(tgt, ast.Attribute) and tgt.attr == name and isinstance(tgt.value, ast.Name) and tgt.value.id == sp:
                if src is not None:
                    return None
                v = st.value
                if isinstance(v, ast.Name) and v.id in kwd:
                    src, result = v.id, ('const', kwd[v.id].value)
                elif isinstance(v, ast.IfExp) and any(isinstance(x, ast.Name) and x.id in kwd for x in ast.walk(v.test)):
                    # self.X = X if X is not None else <stock>   /   <stock> if X is None else X
                    pn = [x.id for x in ast.walk(v.test) if isinstance(x, ast.Name) and x.id in kwd][0]
                    if kwd[pn].value is not None:
                        return None
                    t = v.test
                    if isinstance(t, ast.Compare) and len(t.ops) == 1 and isinstance(t.left, ast.Name) and t.left.id == pn \
                            and isinstance(t.comparators[0], ast.Constant) and t.comparators[0].value is None:
                        taken = v.orelse if isinstance(t.ops[0], ast.IsNot) else (v.body if isinstance(t.ops[0], ast.Is) else None)
                    elif isinstance(t, ast.Name):
                        taken = v.orelse
                    else:
                        taken = None
                    if taken is None or any(isinstance(x, ast.Name) and x.id == pn for x in ast.walk(taken)):
                        return None
                    if isinstance(taken, ast.Constant):
                        src, result = pn, ('const', taken.value)
                    elif isinstance(taken, (ast.Name, ast.Attribute)):
                        r = self.facts.resolve_expr(ci.module, taken)
                        if r[0] not in ('cls', 'fn', 'pkgmod', 'ext', 'builtin'):
                            return None
                        src, result = pn, self.ref(r)
                    else:
                        return None
                else:
                    return None
        if src is None:
            return None
        self.facts.__dict__.setdefault('_ctor_options_assumed', set()).add('%s.%s (stock value of the keyword-only option `%s`)' % (cq, name, src))
        return result

    def _enum_members(self, cq: str):
        """[(NAME, constant value)] of a package Enum class in definition order, else None."""
        ci = self.facts.classes.get(cq)
        if ci is None or not any(b.split('.')[-1] in ('Enum', 'IntEnum', 'StrEnum', 'Flag', 'IntFlag') for b in self.facts.ext_bases(cq)):
            return None
        out = []
        for st in ci.node.body:
            if isinstance(st, ast.Assign) and len(st.targets) == 1 and isinstance(st.targets[0], ast.Name) and isinstance(st.value, ast.Constant) \
                    and not st.targets[0].id.startswith('_'):
                out.append((st.targets[0].id, st.value.value))
        return out

    def _field_default(self, qual: str, name: str, fr):
        """Value of a dataclass field default: a constant, or a fresh list / dict from default_factory; None if not understood."""
        for n_, _ann, d_, q_ in self.facts.all_fields(qual, ctor=True):
            if n_ != name or d_ is None:
                continue
            if isinstance(d_, ast.Constant):
                return ('const', d_.value)
            if isinstance(d_, ast.Call) and isinstance(d_.func, (ast.Name, ast.Attribute)) and (
                    (isinstance(d_.func, ast.Name) and d_.func.id == 'field') or (isinstance(d_.func, ast.Attribute) and d_.func.attr == 'field')):
                for kw in d_.keywords:
                    if kw.arg == 'default' and isinstance(kw.value, ast.Constant):
                        return ('const', kw.value.value)
                    if kw.arg == 'default_factory' and isinstance(kw.value, ast.Name) and kw.value.id in ('list', 'dict'):
                        return ListVal([], self.fresh()) if kw.value.id == 'list' else DictVal([], self.fresh())
            return None
        return None

    def _namedtuple_fields(self, cq: str):
        """[(field, default node or None)] of a typing.NamedTuple class of the package, else None."""
        ci = self.facts.classes.get(cq)
        if ci is None or not any(b.endswith('NamedTuple') for b in self.facts.ext_bases(cq)):
            return None
        out = []
        for st in ci.node.body:
            if isinstance(st, ast.AnnAssign) and isinstance(st.target, ast.Name):
                out.append((st.target.id, st.value))
        return out

    def _is_sentinel(self, q: str) -> bool:
        """A module-level NAME = object() assigned once and never rebound: an identity nobody else can have."""
        mod, _, var = q.rpartition('.')
        m = self.facts.modules.get(mod)
        vals = m.assigns.get(var, []) if m is not None else []
        return len(vals) == 1 and isinstance(vals[0], ast.Call) and isinstance(vals[0].func, ast.Name) and vals[0].func.id == 'object' \
            and not vals[0].args and not any(isinstance(n, ast.Global) and var in n.names for n in ast.walk(m.tree))

    def _table_contained(self, q: str) -> bool:
        """The module- or class-level dict is only ever read in place - subscripted, asked for items() / keys() / values() /
        get(), tested with `in`, iterated, measured with len() - or handed to a package function that does nothing else with that
        parameter; it is never stored, returned or passed on: nobody holds an alias through which its entries could change."""
        cache = self.facts.__dict__.setdefault('_table_contained', {})
        if q in cache:
            return cache[q]
        var = q.rpartition('.')[2]

        def parent_map(tree):
            parents = {}
            for n in ast.walk(tree):
                for c in ast.iter_child_nodes(n):
                    parents[c] = n
            return parents

        def read_in_place(n, parents):
            par = parents.get(n)
            if isinstance(par, ast.Subscript) and par.value is n and isinstance(par.ctx, ast.Load):
                return True
            if isinstance(par, ast.Attribute) and par.value is n and par.attr in ('items', 'keys', 'values', 'get') and \
                    isinstance(parents.get(par), ast.Call) and parents[par].func is par:
                return True
            if isinstance(par, ast.Compare) and n in par.comparators and all(isinstance(o, (ast.In, ast.NotIn)) for o in par.ops):
                return True
            if isinstance(par, (ast.For, ast.comprehension)) and par.iter is n:
                return True
            if isinstance(par, ast.Call) and isinstance(par.func, ast.Name) and par.func.id == 'len' and n in par.args:
                return True
            return False
        ok = True
        for m in self.facts.modules.values():
            if '.ply' in m.name:
                continue
            parents = parent_map(m.tree)
            for n in ast.walk(m.tree):
                hit = (isinstance(n, ast.Name) and n.id == var) or (isinstance(n, ast.Attribute) and n.attr == var)
                if not hit or isinstance(getattr(n, 'ctx', None), ast.Store):
                    continue
                if isinstance(parents.get(n), ast.alias) or read_in_place(n, parents):
                    continue
                par = parents.get(n)
                # an argument of a package function that only reads that parameter in place
                if isinstance(par, ast.Call) and n in par.args and not any(isinstance(x, ast.Starred) for x in par.args):
                    r = self.facts.resolve_expr(m, par.func)
                    fi_ = self.facts.functions.get(r[1]) if r and r[0] == 'fn' else None
                    if fi_ is not None and isinstance(fi_.node, ast.FunctionDef) and not fi_.cls:
                        idx = par.args.index(n)
                        ps_ = fi_.node.args.posonlyargs + fi_.node.args.args
                        if idx < len(ps_):
                            pn = ps_[idx].arg
                            fparents = parent_map(fi_.node)
                            uses = [x for x in ast.walk(fi_.node) if isinstance(x, ast.Name) and x.id == pn]
                            if all(isinstance(x.ctx, ast.Load) and read_in_place(x, fparents) for x in uses):
                                continue
                ok = False
        cache[q] = ok
        return ok

    def _sentinel_contained(self, q: str) -> bool:
        """The sentinel is used only as an operand of `is` / `is not` and as the value assigned to a plain local name, in its own
        module only: it is never stored in a container or an attribute, passed to a call or returned."""
        cache = self.facts.__dict__.setdefault('_sentinel_contained', {})
        if q in cache:
            return cache[q]
        mod, _, var = q.rpartition('.')
        ok = True
        for m in self.facts.modules.values():
            if m.name != mod and any(t == q for t in m.imports.values()):
                ok = False
        m = self.facts.modules.get(mod)
        if m is None:
            ok = False
        else:
            allowed = set()
            for n in ast.walk(m.tree):
                if isinstance(n, ast.Compare) and all(isinstance(o, (ast.Is, ast.IsNot)) for o in n.ops):
                    for x in [n.left] + list(n.comparators):
                        if isinstance(x, ast.Name) and x.id == var:
                            allowed.add(id(x))
                if isinstance(n, ast.Assign) and isinstance(n.value, ast.Name) and n.value.id == var and all(isinstance(t, ast.Name) for t in n.targets):
                    allowed.add(id(n.value))
                if isinstance(n, ast.AnnAssign) and isinstance(n.value, ast.Name) and n.value.id == var and isinstance(n.target, ast.Name):
                    allowed.add(id(n.value))
            for n in ast.walk(m.tree):
                if isinstance(n, ast.Name) and n.id == var and isinstance(n.ctx, ast.Load) and id(n) not in allowed:
                    ok = False
        cache[q] = ok
        return ok

    def _import_time_const(self, q: str):
        """A module-level name assigned exactly once, never declared global, whose value - computed while the module is
        imported - is an immutable object known completely (str / number / tuple / frozenset of such): that value."""
        cache = self.facts.__dict__.setdefault('_import_time_consts', {})
        if q in cache:
            return cache[q]
        cache[q] = None
        mod, _, var = q.rpartition('.')
        m = self.facts.modules.get(mod)
        if m is None or var not in m.assigns or len(m.assigns[var]) != 1 or m.assigns[var][0] is None \
                or self.fi.qual.endswith('.<module>') or mod in self.module_env:
            return None
        node0 = m.assigns[var][0]
        if isinstance(node0, (ast.Constant, ast.Dict, ast.List, ast.Set, ast.Lambda, ast.Name, ast.Attribute)):
            return None                     # displays and aliases are handled elsewhere
        if any(isinstance(n, ast.Global) and var in n.names for n in ast.walk(m.tree)):
            return None
        v = exec_module_body(self.facts, m).get(var)
        fv = freeze(v) if not isinstance(v, (ListVal, DictVal, Closure)) else None

        def frozen_record(qual):
            if self._namedtuple_fields(qual) is not None:
                return True
            ci_ = self.facts.classes.get(qual)
            if ci_ is None or not ci_.is_dataclass:
                return False
            return any(isinstance(d, ast.Call) and any(k.arg == 'frozen' and isinstance(k.value, ast.Constant) and k.value.value is True
                                                       for k in d.keywords) for d in ci_.node.decorator_list)

        def resolve(t):
            # defaults of frozen records written out
            if isinstance(t, tuple) and t[:1] == ('new',) and len(t) > 3:
                return ('new', t[1], tuple((n_, resolve(self._field_default(v_[1], v_[2], None) or v_)
                                            if isinstance(v_, tuple) and v_[:1] == ('default',) and len(v_) == 3 else resolve(v_))
                                           for n_, v_ in t[2]), t[3])
            if isinstance(t, tuple) and t[:1] == ('tuple',):
                return ('tuple',) + tuple(resolve(x) for x in t[1:])
            return t

        def immutable(t):
            if is_const(t):
                return isinstance(t[1], (str, int, float, bool, type(None), bytes))
            if isinstance(t, tuple) and t[:1] == ('tuple',):
                return all(immutable(x) for x in t[1:])
            if isinstance(t, tuple) and t[:1] == ('ref',) and len(t) == 3 and t[1] in ('fn', 'fnraw', 'builtin', 'ext', 'cls', 'enum'):
                return True             # functions and classes: nothing a later call could change
            if isinstance(t, tuple) and t[:1] == ('new',) and len(t) > 3 and frozen_record(t[1]):
                return all(immutable(v_) for _, v_ in t[2])
            return False
        res = None
        if fv is not None:
            fv = resolve(fv)
        if fv is not None and immutable(fv):
            res = fv
        elif isinstance(fv, tuple) and fv[:1] == ('set',) and all(immutable(x) for x in fv[1:]) and isinstance(node0, ast.Call) \
                and isinstance(node0.func, ast.Name) and node0.func.id == 'frozenset':
            res = fv
        cache[q] = res
        return res

    def _const_tuple(self, q: str):
        """A module-level name bound once to a tuple display of constants (nested tuples allowed): the tuple itself.
        Tuples cannot be modified, so the value read at any time is the value written by the assignment."""
        cache = self.__dict__.setdefault('_const_tuples', {})
        if q in cache:
            return cache[q]
        mod, _, var = q.rpartition('.')
        m = self.facts.modules.get(mod)
        res = None
        node0 = m.assigns[var][0] if m is not None and var in m.assigns and len(m.assigns[var]) == 1 else None
        as_set = False
        if isinstance(node0, ast.Call) and not node0.args and not node0.keywords:
            r0 = self.facts.resolve_expr(m, node0.func)
            nt = self._namedtuple_fields(r0[1]) if r0[0] == 'cls' else None
            if nt is not None and all(isinstance(d, ast.Constant) for _, d in nt):
                cache[q] = None
                return None             # NT(): a record of the declared defaults (see _import_time_const)
        if isinstance(node0, ast.Call) and isinstance(node0.func, ast.Name) and node0.func.id == 'frozenset' and len(node0.args) == 1 \
                and not node0.keywords and isinstance(node0.args[0], (ast.Tuple, ast.List, ast.Set)) \
                and self.facts.resolve_name(m, 'frozenset')[0] == 'builtin':
            node0 = ast.Tuple(elts=node0.args[0].elts, ctx=ast.Load())      # frozenset((a, b, c)): immutable
            as_set = True
        if node0 is not None and isinstance(node0, ast.Tuple) \
                and not any(isinstance(n, ast.Global) and var in n.names for n in ast.walk(m.tree)):
            def conv(n):
                if isinstance(n, ast.Constant):
                    return ('const', n.value)
                if isinstance(n, ast.Tuple) and n.elts:
                    xs = [conv(x) for x in n.elts]
                    return None if any(x is None for x in xs) else ('tuple',) + tuple(xs)
                if isinstance(n, ast.Attribute):
                    rb = self.facts.resolve_expr(m, n.value)
                    if rb[0] == 'cls' and n.attr in dict(self._enum_members(rb[1]) or []):
                        return ('ref', 'enum', rb[1] + '.' + n.attr)
                if isinstance(n, (ast.Name, ast.Attribute)):
                    # a reference to a function / class / library callable: as immutable as a constant
                    r = self.facts.resolve_expr(m, n)
                    if r[0] in ('fn', 'cls', 'ext', 'builtin'):
                        return ('ref', r[0], r[1])
                    if r[0] == 'const':
                        return ('const', r[1])
                return None
            res = conv(node0)
            if res is not None and as_set:
                res = ('set',) + tuple(res[1:])
        cache[q] = res
        return res

    def load_name(self, name, fr: Frame, node):
        f: Optional[Frame] = fr
        while f is not None:
            if name in f.env and name not in f.globals_declared:
                return f.env[name]
            f = f.outer
        menv = self.module_env.get(fr.module.name)
        if menv is not None and name in menv:
            return menv[name]
        r = self.facts.resolve_name(fr.module, name)
        if r[0] == 'unbound':
            return ('unknown', 'unbound:%s' % name)
        return self.ref(r)

    def ev(self, e, fr: Frame):
        m = getattr(self, 'ex_' + type(e).__name__, None)
        if m is None:
            raise Unrecognised('%s: expression kind %s not modelled (%s:%d)' % (
                fr.qual, type(e).__name__, fr.module.rel, getattr(e, 'lineno', 0)))
        return m(e, fr)

    def ex_Constant(self, e, fr):
        return ('const', e.value)

    def ex_Name(self, e, fr):
        return self.load_name(e.id, fr, e)

    def ex_NamedExpr(self, e, fr):
        v = self.ev(e.value, fr)
        self.assign(e.target, v, fr, e)
        return v

    def ex_Attribute(self, e, fr):
        b = self.ev(e.value, fr)
        return self.attr(b, e.attr, e, fr)

    def attr(self, b, name, node, fr):
        fb = freeze(b) if not isinstance(b, (ProdVal, Closure)) else None
        if fb is not None and ('attr', fb, name) in self.overrides:
            return self.overrides[('attr', fb, name)]
        if fb == ('const', None):
            # attribute access on None: AttributeError, as CPython raises it
            self.emit('attr_on_none', node, attr=name)
            exc = ('call', self.fresh(), ('ref', 'builtin', 'AttributeError'), (('const', "'NoneType' object has no attribute %r" % name),), ())
            self.emit('raise', node, exc=exc, implicit=True)
            raise _Raise(exc, node)
        if isinstance(b, tuple) and b and b[0] == 'ref':
            if b[1] == 'cls':
                mem = self._enum_members(b[2])
                if mem is not None and name in dict(mem):
                    return ('ref', 'enum', b[2] + '.' + name)
            if b[1] == 'enum' and name in ('value', 'name', '_value_', '_name_'):
                cq_, _, mn_ = b[2].rpartition('.')
                mem = dict(self._enum_members(cq_) or [])
                if mn_ in mem:
                    return ('const', mem[mn_] if name in ('value', '_value_') else mn_)
            if b[1] == 'cls' and name == '_fields':
                nt = self._namedtuple_fields(b[2])
                if nt is not None:
                    return ('tuple',) + tuple(('const', n_) for n_, _ in nt)
            if b[1] == 'cls' and b[2] in self.facts.classes:
                cv_ = self._class_attr(b[2], name, True)
                if cv_ is not None:
                    return cv_          # class-level constant read through the class object
            r = self.facts.attr_of((b[1], b[2]), name)
            if b[1] == 'cls' and r[0] == 'fn' and r[1] in self.facts.functions and r[1].rsplit('.', 1)[0] != b[2] \
                    and _has_decorator(self.facts.functions[r[1]].node, 'classmethod'):
                return ('attr', b, name)        # an inherited classmethod called through a subclass: cls is that subclass
            if r[0] != 'unbound':
                return self.ref(r)
            return ('attr', b, name)
        if isinstance(b, tuple) and b[:2] == ('ref', 'modvar') and len(b) == 3:
            rec_ = self._import_time_const(b[2])
            if isinstance(rec_, tuple) and rec_[:1] == ('new',):
                for fn_, fv in rec_[2]:
                    if fn_ == name:
                        return fv           # a field of a frozen record made at import
        hk_ = self._heap_key(b) if isinstance(b, tuple) else None
        if hk_ is not None and name in self.heap.get(hk_, {}):
            return self.heap[hk_][name]
        if self.pattr and hk_ is None and not isinstance(b, (ProdVal, Closure, ListVal, DictVal)):
            pv_ = self.pattr.get((freeze(b), name))
            if pv_ is not None:
                return pv_              # the value this path stored there, no opaque call since
        if isinstance(b, tuple) and b and b[0] == 'new':
            for fn_, fv in b[2]:
                if fn_ == name:
                    if hk_ is not None and isinstance(fv, tuple) and fv[:1] == ('default',) and len(fv) == 3:
                        # a dataclass field left at its default: the default value, made once per object
                        dv_ = self._field_default(fv[1], fv[2], fr)
                        if dv_ is not None:
                            self.heap.setdefault(hk_, {})[name] = dv_
                            return dv_
                    if hk_ is not None and isinstance(fv, tuple) and fv[:1] == ('list',) and not any(
                            isinstance(x, tuple) and x[:1] == ('star',) for x in fv[1:]):
                        lv_ = ListVal(list(fv[1:]), self.fresh())       # the list handed to the constructor, as an object
                        self.heap.setdefault(hk_, {})[name] = lv_
                        return lv_
                    return fv
        # class-level constant / table reached through an instance or through the class object
        if fr is not None and fb is not None:
            qc = fb[2] if (isinstance(fb, tuple) and fb[:2] == ('ref', 'cls')) else self.type_of(fb, fr)
            if qc and qc in self.facts.classes:
                cv = self._class_attr(qc, name, exact=(isinstance(fb, tuple) and fb[:1] in (('new',), ('obj',), ('ref',))) or (
                    isinstance(fb, tuple) and fb[:1] == ('param',) and self._is_self(fb[1], fr)))
                if cv is not None:
                    return cv
                ov = self._ctor_option(qc, name)
                if ov is not None:
                    return ov
        # @property of a package class
        if fr is not None and fb is not None:
            q = self.type_of(fb, fr)
            if q:
                mq = self.facts.find_method(q, name)
                if mq and mq in self.facts.functions and _has_decorator(self.facts.functions[mq].node, 'property') \
                        and mq not in self.stack and len(self.stack) < MAX_INLINE and self.inline:
                    return self._inline_call(mq, [b], [], node, ('attr', fb, name))
        if isinstance(b, ProdVal):
            return ('attr', ('prod', b.lhs), name)
        if isinstance(b, tuple) and b and b[0] == 'prodsym' and name == 'type':
            return ('const', b[1])
        if isinstance(b, tuple) and b and b[0] == 'prodsym' and name == 'value' and len(b) > 2 and self.prod is not None:
            return self.prod.result if b[2] == 0 else self.prod.values[b[2] - 1]       # p.slice[k].value is p[k]
        return ('attr', fb if fb is not None else freeze(b), name)

    def ex_Subscript(self, e, fr):
        b = self.ev(e.value, fr)
        i = self.ev(e.slice, fr)
        return self.subscript(b, i, e, fr)

    def _singleton_method(self, obj, name) -> Optional[str]:
        """The package method that implements an operator on a module-level singleton of a package class."""
        fo = freeze(obj) if not isinstance(obj, (ProdVal, Closure)) else None
        if not (isinstance(fo, tuple) and fo[:2] == ('ref', 'modvar')) or not self.inline:
            return None
        cq = self._singleton_class(fo[2])
        if not cq:
            return None
        mq = self.facts.find_method(cq, name)
        if mq and mq in self.facts.functions and mq not in self.stack and len(self.stack) < MAX_INLINE:
            return mq
        return None

    def subscript(self, b, i, node, fr):
        m_ = self._singleton_method(b, '__getitem__')
        if m_ is not None:
            return self._inline_call(m_, [b, i], [], node, ('attr', freeze(b), '__getitem__'))
        if isinstance(b, ProdVal):
            if is_const(i) and isinstance(i[1], int):
                k = i[1]
                if k == 0:
                    return b.result
                if k < 0:
                    k = len(b.values) + 1 + k
                if 1 <= k <= len(b.values):
                    return b.values[k - 1]
                self.emit('prod_oob', node, index=i)
                raise _Raise(('call', self.fresh(), ('ref', 'builtin', 'IndexError'), (), ()), node)
            if isinstance(i, tuple) and i and i[0] == 'slice' and all(is_const(x) for x in i[1:4]):
                full = [b.result] + list(b.values)
                return ListVal(full[slice(i[1][1], i[2][1], i[3][1])], self.fresh())
            raise Unrecognised('non-constant index into p: %s' % norm(node))
        if isinstance(b, tuple) and b and b[0] == 'attr' and b[2] == 'slice' and b[1] and b[1][0] == 'prod':
            # p.slice[i] -> grammar symbol object
            if is_const(i) and isinstance(i[1], int) and self.prod is not None:
                k = i[1]
                if k < 0:
                    k = len(self.prod.syms) + 1 + k
                if k == 0:
                    return ('prodsym', self.prod.lhs, 0)
                if 1 <= k <= len(self.prod.syms):
                    return ('prodsym', self.prod.syms[k - 1], k)
                self.emit('prod_oob', node, index=i)
                raise _Raise(('call', self.fresh(), ('ref', 'builtin', 'IndexError'), (), ()), node)
            if isinstance(i, tuple) and i and i[0] == 'slice' and all(is_const(x) for x in i[1:4]) and self.prod is not None:
                full = [('prodsym', self.prod.lhs, 0)] + [('prodsym', sy, k + 1) for k, sy in enumerate(self.prod.syms)]
                return ListVal(full[slice(i[1][1], i[2][1], i[3][1])], self.fresh())
        if isinstance(b, ListVal) and b.concrete():
            if is_const(i) and isinstance(i[1], int) and not isinstance(i[1], bool):
                if -len(b.elts) <= i[1] < len(b.elts):
                    return b.elts[i[1]]
            if isinstance(i, tuple) and i and i[0] == 'slice' and all(is_const(x) for x in i[1:4]):
                try:
                    return ListVal(b.elts[slice(i[1][1], i[2][1], i[3][1])], self.fresh())
                except Exception:
                    pass
        if isinstance(b, tuple) and b and b[0] == 'tuple' and is_const(i) and isinstance(i[1], int) \
                and -(len(b) - 1) <= i[1] < len(b) - 1:
            return b[1:][i[1]]
        if isinstance(b, tuple) and b[:1] == ('new',) and len(b) > 2 and is_const(i) and isinstance(i[1], int) and not isinstance(i[1], bool) \
                and self._namedtuple_fields(b[1]) is not None and -len(b[2]) <= i[1] < len(b[2]):
            return b[2][i[1]][1]            # a NamedTuple indexed by position
        if isinstance(b, DictVal) and is_const(i) and all(it[0] != 'dstar' and is_const(freeze(it[0])) for it in b.items):
            for k, v in b.items:
                if freeze(k) == i:
                    return v
        if is_const(b) and isinstance(b[1], (str, tuple)) and is_const(i) and isinstance(i[1], int):
            try:
                return ('const', b[1][i[1]])
            except Exception:
                pass
        # dispatch table kept at module level:  _OPS = {'+=': operator.iadd, ...};  _OPS[op]
        ikey_ = None
        if is_const(i):
            ikey_ = (i[1],)
        elif isinstance(i, tuple) and i[:1] == ('tuple',) and all(is_const(x) for x in i[1:]):
            ikey_ = (tuple(x[1] for x in i[1:]),)
        if isinstance(b, tuple) and b[:2] == ('ref', 'modvar') and ikey_ is not None:
            hit = self.modvar_table_entry(b[2], ikey_[0])
            if hit is not None:
                if hit[0]:
                    return hit[1]
                exc = ('call', self.fresh(), ('ref', 'builtin', 'KeyError'), (), ())
                self.emit('raise', node, exc=exc, implicit=True)
                raise _Raise(exc, node)
        self.emit('load_sub', node, obj=b, index=i, handlers=self._handlers())
        return ('sub', freeze(b), freeze(i))

    def modvar_table(self, dotted):
        """(module, [(constant key, value node)]) of a module-level dict display, following ** merges."""
        mod, _, var = dotted.rpartition('.')
        m = self.facts.modules.get(mod)
        vals = m.assigns.get(var) if m else None
        if m is None and mod in self.facts.classes:
            ci = self.facts.cls(mod)
            m = ci.module
            vals = [st.value for st in ci.node.body if isinstance(st, (ast.Assign, ast.AnnAssign)) and getattr(st, 'value', None) is not None and any(
                isinstance(t, ast.Name) and t.id == var for t in (st.targets if isinstance(st, ast.Assign) else [st.target]))]
        if not (vals and len(vals) == 1 and isinstance(vals[0], ast.Dict)):
            return None
        out = []
        for k, v in zip(vals[0].keys, vals[0].values):
            if k is None:
                if isinstance(v, ast.Name):
                    r = self.facts.resolve_name(m, v.id)
                    if r[0] == 'modvar':
                        sub = self.modvar_table(r[1])
                        if sub is not None:
                            out.extend((mm, kk, vv) for mm, kk, vv in sub)
                            continue
                return None
            if isinstance(k, ast.Tuple) and all(isinstance(x, ast.Constant) for x in k.elts):
                out.append((m, tuple(x.value for x in k.elts), v))        # a tuple of constants as key
                continue
            if not isinstance(k, ast.Constant):
                return None
            out.append((m, k.value, v))
        return out

    def modvar_table_entry(self, dotted, key):
        """(found, value) for TABLE[key] of a module-level dict display; None when the table is not understood."""
        tab = self.modvar_table(dotted)
        if not tab:
            return self._registered_table_entry(dotted, key)
        for m, k, v in reversed(tab):
            if k == key and type(k) == type(key):
                if isinstance(v, ast.Lambda):
                    fr = Frame(m, m.name + '.<table %s>' % dotted.rsplit('.', 1)[-1], None)
                    c = Closure(v, {}, m, fr.qual + '[%r]' % (key,), self.fresh(), None, fr)
                    return (True, c)
                def conv_(n):
                    if isinstance(n, ast.Constant):
                        return ('const', n.value)
                    if isinstance(n, ast.Tuple):
                        xs = [conv_(x) for x in n.elts]
                        return None if any(x is None for x in xs) else ('tuple',) + tuple(xs)
                    if isinstance(n, ast.UnaryOp) and isinstance(n.op, ast.USub) and isinstance(n.operand, ast.Constant) \
                            and isinstance(n.operand.value, (int, float)):
                        return ('const', -n.operand.value)
                    return None
                cv_ = conv_(v)
                if cv_ is not None:
                    return (True, cv_)               # a constant / tuple of constants (immutable) stored in the table
                r = self.facts.resolve_expr(m, v)
                if r[0] == 'unbound':
                    return None
                return (True, self.ref(r))
        return (False, None)

    def _registered_table_entry(self, dotted, key):
        """A module-level dict that starts empty and is filled while the module is imported (registration calls or
        decorators), and that no function writes afterwards."""
        mod, _, var = dotted.rpartition('.')
        m = self.facts.modules.get(mod)
        if m is None or self.fi.qual.endswith('.<module>'):
            return None
        from . import functab
        import_only = set(functab.import_time_only_writers(self.facts, mod))
        for q, fi in self.facts.functions.items():
            if fi.module is not m or q in import_only or any(q.startswith(o + '.') for o in import_only):
                continue
            for n in ast.walk(fi.node):
                tgt = None
                if isinstance(n, ast.Subscript) and isinstance(n.ctx, (ast.Store, ast.Del)):
                    tgt = n.value
                elif isinstance(n, ast.Call) and isinstance(n.func, ast.Attribute) and n.func.attr in (
                        'update', 'pop', 'popitem', 'clear', 'setdefault', '__setitem__', '__delitem__'):
                    tgt = n.func.value
                elif isinstance(n, ast.AugAssign):
                    tgt = n.target
                if isinstance(tgt, ast.Name) and tgt.id == var:
                    return None          # written after import: not a constant table
        env = exec_module_body(self.facts, m)
        tab = env.get(var)
        if not isinstance(tab, DictVal):
            return None
        found = None
        for it in tab.items:
            if it[0] == 'dstar':
                return None
            k = freeze(it[0])
            if not is_const(k):
                return None
            if k[1] == key and type(k[1]) == type(key):
                found = it[1]
        if found is None:
            return (False, None)
        fv = keep(found) if not isinstance(found, Closure) else found         # records holding closures stay callable
        if isinstance(fv, tuple) and fv[:2] == ('ref', 'fnraw'):
            fv = ('ref', 'fn', fv[2])
        return (True, fv)

    def ex_Slice(self, e, fr):
        return ('slice',
                self.ev(e.lower, fr) if e.lower is not None else ('const', None),
                self.ev(e.upper, fr) if e.upper is not None else ('const', None),
                self.ev(e.step, fr) if e.step is not None else ('const', None))

    def ex_Starred(self, e, fr):
        return ('star', freeze(self.ev(e.value, fr)))

    def _elts(self, elts, fr):
        out = []
        for x in elts:
            if isinstance(x, ast.Starred):
                pg_ = self.package_generator(x.value, fr) if isinstance(x.value, ast.Call) else None
                if pg_ is not None:
                    # `*gen(...)` of a package generator consumes it on the spot: the yielded values in order, when every
                    # loop of the generator ran over a known spine
                    got_ = []
                    n0_ = len(self.events)
                    if self.inline_generator(pg_[0], pg_[1], pg_[2], x.value, fr, got_.append):
                        if any(ev_.kind in ('loop_skip', 'loop_test') for ev_ in self.events[n0_:]):
                            out.append(('star', ('unknown', 'generator with a loop over an unknown iterable')))
                        else:
                            out.extend(got_)
                        continue
                # `*(f(x) for x in xs)` consumes the generator on the spot: same as the list comprehension
                v = self._comp(x.value, fr, 'list') if isinstance(x.value, ast.GeneratorExp) else self.ev(x.value, fr)
                if isinstance(v, ListVal):
                    out.extend(v.elts)
                elif isinstance(v, tuple) and v and v[0] == 'tuple':
                    out.extend(v[1:])
                elif isinstance(v, DictVal) and all(i[0] != 'dstar' and is_const(freeze(i[0])) for i in v.items):
                    ks_ = []
                    for k_, _ in v.items:
                        if freeze(k_) not in ks_:
                            ks_.append(freeze(k_))
                    out.extend(ks_)               # *d of a dict whose keys are known: the keys in insertion order
                else:
                    out.append(('star', freeze(v)))
            else:
                out.append(self.ev(x, fr))
        return out

    def ex_List(self, e, fr):
        return ListVal(self._elts(e.elts, fr), self.fresh())

    def ex_Tuple(self, e, fr):
        return ('tuple',) + tuple(x if isinstance(x, ProdVal) else keep(x) for x in self._elts(e.elts, fr))

    def ex_Set(self, e, fr):
        return ('set',) + tuple(freeze(x) for x in self._elts(e.elts, fr))

    def ex_Dict(self, e, fr):
        items = []
        for k, v in zip(e.keys, e.values):
            if k is None:
                vv = self.ev(v, fr)
                if isinstance(vv, DictVal):
                    items.extend(vv.items)
                else:
                    items.append(('dstar', freeze(vv)))
            else:
                kk = self.ev(k, fr)
                vv = self.ev(v, fr)
                items.append((kk, vv))
        return DictVal(items, self.fresh())

    def ex_JoinedStr(self, e, fr):
        parts = []
        for v in e.values:
            if isinstance(v, ast.Constant):
                parts.append(('const', v.value))
            else:
                pv_ = freeze(self.ev(v.value, fr))
                if v.format_spec is not None or v.conversion != -1:
                    spec_ = freeze(self.ev(v.format_spec, fr)) if v.format_spec is not None else ('const', '')
                    pv_ = ('fmt', pv_, spec_, v.conversion)        # {value!c:spec}
                parts.append(pv_)
        if all(is_const(p_) and isinstance(p_[1], str) for p_ in parts) and all(
                isinstance(v, ast.Constant) or (v.conversion == -1 and v.format_spec is None) for v in e.values):
            return ('const', ''.join(p_[1] for p_ in parts))        # every part is a known string
        return ('fstr',) + tuple(parts)

    def ex_FormattedValue(self, e, fr):
        return freeze(self.ev(e.value, fr))

    def ex_Lambda(self, e, fr):
        c = Closure(e, dict(fr.env), fr.module, fr.qual + '.<lambda:%d>' % e.lineno, self.fresh(), fr.cls, fr)
        self.closures.append(c)
        return c

    def ex_IfExp(self, e, fr):
        c = self.ev(e.test, fr)
        if self.truth(c, e.test):
            return self.ev(e.body, fr)
        return self.ev(e.orelse, fr)

    def ex_BoolOp(self, e, fr):
        is_and = isinstance(e.op, ast.And)
        v = None
        for i, x in enumerate(e.values):
            v = self.ev(x, fr)
            if i == len(e.values) - 1:
                return v
            t = self.truth(v, x)
            if is_and and not t:
                return v
            if not is_and and t:
                return v
        return v

    def ex_UnaryOp(self, e, fr):
        v = self.ev(e.operand, fr)
        if isinstance(e.op, ast.Not):
            k = self.known_truth(v)
            if k is not None:
                return ('const', not k)
            return ('not', freeze(v))
        op = UN_OPS[type(e.op)]
        if is_const(v) and isinstance(v[1], (int, float)) and not isinstance(v[1], bool):
            return ('const', -v[1] if op == '-' else (+v[1] if op == '+' else ~v[1]))
        return ('unop', op, freeze(v))

    def ex_BinOp(self, e, fr):
        l = self.ev(e.left, fr)
        r = self.ev(e.right, fr)
        return self.binop(BIN_OPS[type(e.op)], l, r, e)

    def binop(self, op, l, r, node):
        if is_const(l) and is_const(r) and type(l[1]) in (int, str, float) and type(r[1]) in (int, str, float):
            try:
                if op == '+':
                    return ('const', l[1] + r[1])
                if op == '-':
                    return ('const', l[1] - r[1])
                if op == '*' and isinstance(l[1], int) and isinstance(r[1], int):
                    return ('const', l[1] * r[1])
                if op == '*' and not isinstance(l[1], bool) and not isinstance(r[1], bool) and (
                        (isinstance(l[1], str) and isinstance(r[1], int)) or (isinstance(l[1], int) and isinstance(r[1], str))):
                    n_ = r[1] if isinstance(r[1], int) else l[1]
                    s_ = l[1] if isinstance(l[1], str) else r[1]
                    if 0 <= n_ * len(s_) <= 400:
                        return ('const', s_ * n_)           # ' ' * len(name): layout of a generated docstring
            except Exception:
                pass
        if op == '%' and is_const(l) and isinstance(l[1], str):
            fr_ = freeze(r)
            vals_ = None
            if is_const(fr_) and isinstance(fr_[1], (str, int)) and not isinstance(fr_[1], bool):
                vals_ = fr_[1]
            elif isinstance(fr_, tuple) and fr_[:1] == ('tuple',) and all(is_const(x) and isinstance(x[1], (str, int)) for x in fr_[1:]):
                vals_ = tuple(x[1] for x in fr_[1:])
            if vals_ is not None:
                try:
                    return ('const', l[1] % vals_)
                except Exception:
                    pass
        if op == '+' and isinstance(l, ListVal) and isinstance(r, ListVal):
            return ListVal(l.elts + r.elts, self.fresh())
        if op == '+' and isinstance(l, tuple) and l[:1] == ('tuple',) and isinstance(r, tuple) and r[:1] == ('tuple',):
            return l + r[1:]               # tuple displays concatenated
        if op == '+' and isinstance(r, ListVal) and isinstance(l, tuple) and l and l[0] in ('symlist',):
            return ListVal([('star', freeze(l))] + r.elts, self.fresh())
        if op == '+' and isinstance(l, ListVal) and isinstance(r, tuple) and r and r[0] in ('symlist',):
            return ListVal(l.elts + [('star', freeze(r))], self.fresh())
        if op == '+' and isinstance(l, tuple) and l and l[0] == 'symlist' and isinstance(r, tuple) and r and r[0] == 'symlist':
            return ListVal([('star', freeze(l)), ('star', freeze(r))], self.fresh())
        self.emit('binop', node, op=op, left=l, right=r)
        return ('binop', op, freeze(l), freeze(r))

    def ex_Compare(self, e, fr):
        left = self.ev(e.left, fr)
        result = None
        for opn, cn in zip(e.ops, e.comparators):
            right = self.ev(cn, fr)
            op = CMP_OPS[type(opn)]
            t = self.compare(op, left, right, e)
            if len(e.ops) == 1:
                return t
            # chained: a < b < c  ==  a < b and b < c
            if not self.truth(t, e):
                return t
            result = t
            left = right
        return result

    def compare(self, op, l, r, node):
        if op in ('in', 'not in'):
            m_ = self._singleton_method(r, '__contains__')
            if m_ is not None:
                res = self._inline_call(m_, [r, l], [], node, ('attr', freeze(r), '__contains__'))
                if op == 'in':
                    return res
                fres = freeze(res)
                return ('const', not fres[1]) if is_const(fres) else ('not', fres)
        t = self._compare(op, l, r, node)
        # negative operators are represented as the negation of the positive one, so that
        # `x is None` and `x is not None` (== / !=, in / not in) share one assumption per path
        if isinstance(t, tuple) and t and t[0] == 'cmp' and t[1] in ('is not', '!=', 'not in'):
            pos = {'is not': 'is', '!=': '==', 'not in': 'in'}[t[1]]
            return ('not', ('cmp', pos, t[2], t[3]))
        return t

    def _compare(self, op, l, r, node):
        fl, fr_ = freeze(l), freeze(r)
        if op in ('in', 'not in') and isinstance(r, DictVal) and is_const(fl) and all(
                i[0] != 'dstar' and is_const(freeze(i[0])) for i in r.items):
            # membership of a constant in a dict whose keys are all known constants
            hit_ = any(freeze(i[0])[1] == fl[1] and type(freeze(i[0])[1]) == type(fl[1]) for i in r.items)
            return ('const', hit_ == (op == 'in'))
        if is_const(fl) and is_const(fr_):
            a, b = fl[1], fr_[1]
            try:
                res = {'==': lambda: a == b, '!=': lambda: a != b, '<': lambda: a < b, '<=': lambda: a <= b,
                       '>': lambda: a > b, '>=': lambda: a >= b, 'is': lambda: a is b or (a == b and type(a) == type(b) and isinstance(a, (bool, type(None), type(...)))),
                       'is not': lambda: not (a is b or (a == b and type(a) == type(b) and isinstance(a, (bool, type(None), type(...))))),
                       'in': lambda: a in b, 'not in': lambda: a not in b}[op]()
                return ('const', bool(res))
            except Exception:
                pass
        # bool(x) is True / bool(x) == False ...: the truth value of x (negated for False)
        if op in ('is', 'is not', '==', '!='):
            for a_, b_ in ((fl, fr_), (fr_, fl)):
                arg_ = None
                if isinstance(a_, tuple) and a_[:2] == ('pcall', 'bool') and len(a_[2]) == 1:
                    arg_ = a_[2][0]
                elif isinstance(a_, tuple) and a_[:1] == ('call',) and a_[2] == ('ref', 'builtin', 'bool') and len(a_[3]) == 1 and not a_[4]:
                    arg_ = a_[3][0]
                if arg_ is not None and is_const(b_) and isinstance(b_[1], bool):
                    positive = (b_[1] is True) == (op in ('is', '=='))
                    return a_ if positive else ('not', a_)          # bool(x) itself (a condition on it is a condition on x): still a boolean
        # two displays of constants
        if op in ('==', '!=') and isinstance(fl, tuple) and isinstance(fr_, tuple) and fl[:1] == fr_[:1] and fl[:1] in (('list',), ('tuple',)) \
                and all(is_const(x) for x in fl[1:]) and all(is_const(x) for x in fr_[1:]):
            return ('const', ([x[1] for x in fl[1:]] == [x[1] for x in fr_[1:]]) == (op == '=='))
        # membership of a constant in a module-level dispatch / value table
        if op in ('in', 'not in') and is_const(fl) and isinstance(fr_, tuple) and fr_[:2] == ('ref', 'modvar'):
            try:
                hit = self.modvar_table_entry(fr_[2], fl[1])
            except Exception:
                hit = None
            if hit is not None:
                return ('const', bool(hit[0]) == (op == 'in'))
        # membership of a constant in a display of constants
        def atom(x):
            return is_const(x) or (isinstance(x, tuple) and x[:1] == ('ref',) and x[1] in ('enum', 'fn', 'cls', 'ext', 'builtin'))
        if op in ('in', 'not in') and atom(fl) and isinstance(fr_, tuple) and fr_ and fr_[0] in ('tuple', 'set', 'list') \
                and all(atom(x) for x in fr_[1:]):
            try:
                hit = any((x == fl) if not (is_const(x) and is_const(fl)) else (x[1] == fl[1]) for x in fr_[1:])
                return ('const', hit == (op == 'in'))
            except Exception:
                pass
        if op in ('is', 'is not') and fl == fr_ and isinstance(fl, tuple) and fl and fl[0] in ('ref', 'new', 'obj', 'sym'):
            return ('const', op == 'is')
        if op in ('is', 'is not', '==', '!=') and isinstance(fl, tuple) and isinstance(fr_, tuple) and fl[:2] == ('ref', 'enum') and fr_[:2] == ('ref', 'enum'):
            return ('const', (fl == fr_) == (op in ('is', '==')))
        # identity of an object created on this path with something that existed before (a module-level object, a class,
        # a function) or with another object created on this path
        if op in ('is', 'is not'):
            def fresh_obj(t):
                return isinstance(t, tuple) and t and t[0] in ('new', 'list', 'dict', 'closure', 'obj') and not (t[0] in ('list', 'dict') and len(t) == 1)
            def preexisting(t):
                return isinstance(t, tuple) and t and t[0] == 'ref'
            if (fresh_obj(fl) and preexisting(fr_)) or (fresh_obj(fr_) and preexisting(fl)):
                return ('const', op == 'is not')
            if fresh_obj(fl) and fresh_obj(fr_) and fl[0] == 'new' and fr_[0] == 'new' and fl[-1] != fr_[-1]:
                return ('const', op == 'is not')
        # identity with a private sentinel (`_UNSET = object()` at module level): a value the parser put on its stack - a grammar
        # symbol, a token value - is never that object, and neither is a constant
        if op in ('is', 'is not'):
            for a_, b_ in ((fl, fr_), (fr_, fl)):
                if isinstance(a_, tuple) and a_[:2] == ('ref', 'modvar') and len(a_) == 3 and self._is_sentinel(a_[2]) and (
                        (isinstance(b_, tuple) and b_[:1] in (('sym',), ('symlist',), ('tok',), ('const',))) or isinstance(r if a_ is fl else l, ProdVal)):
                    return ('const', op == 'is not')
                # ... and neither is a value read out of a container by subscript, when the sentinel never leaves local
                # variables (it is only ever compared by identity or assigned to a plain name)
                if isinstance(a_, tuple) and a_[:2] == ('ref', 'modvar') and len(a_) == 3 and self._is_sentinel(a_[2]) and \
                        isinstance(b_, tuple) and b_[:1] == ('sub',) and self._sentinel_contained(a_[2]):
                    return ('const', op == 'is not')
        # identity / equality against None etc. for values that are known objects
        if op in ('is', 'is not', '==', '!=') and (is_const(fl) or is_const(fr_)):
            other, c = (fl, fr_) if is_const(fr_) else (fr_, fl)
            if isinstance(other, tuple) and other and other[0] == 'sym':
                kinds_ = other[4] if len(other) > 4 else ('op',)
                if c[1] is None and 'none' not in kinds_ and 'unknown' not in kinds_:
                    return ('const', op in ('is not', '!='))
                if c[1] is None and kinds_ == ('none',):
                    return ('const', op in ('is', '=='))
                if isinstance(c[1], (str, bool, int)) and c[1] is not None and set(kinds_) <= {'op', 'none', 'list'}:
                    return ('const', op in ('is not', '!='))
            elif isinstance(other, tuple) and other and (other[0] in ('list', 'dict', 'new', 'closure', 'symlist', 'tuple', 'fstr') or (
                    other[0] == 'ref' and other[1] in ('fn', 'fnraw', 'cls', 'ext', 'builtin', 'extmod', 'pkgmod', 'enum'))):
                if c[1] is None or c[1] is Ellipsis or isinstance(c[1], (str, bool, int)):
                    if other[0] == 'tuple' and isinstance(c[1], tuple):
                        pass
                    else:
                        return ('const', op in ('is not', '!='))
            if isinstance(other, tuple) and other and other[0] == 'tok' and isinstance(c[1], str) and op in ('==', '!='):
                # token text versus a literal: decided by the lexer model if the token has a fixed text
                pass
            # equality facts gathered on this path
            if op in ('==', '!=') and other in self.eqs:
                return ('const', (self.eqs[other] == c[1]) == (op == '=='))
            if op in ('==', '!=') and other in self.neqs and c[1] in self.neqs[other]:
                return ('const', op == '!=')
            if is_const(fr_):
                return ('cmp', op, fl, fr_)
            # canonical orientation for symmetric operators
            return ('cmp', op, fr_, fl) if op in ('==', '!=', 'is', 'is not') else ('cmp', op, fl, fr_)
        return ('cmp', op, fl, fr_)

    # ---------------------------------------------------------------- truth
    def known_truth(self, t) -> Optional[bool]:
        if isinstance(t, ListVal):
            if any(not (isinstance(e, tuple) and e and e[0] == 'star') for e in t.elts):
                return True
            return False if not t.elts else None
        if isinstance(t, DictVal):
            if any(i[0] != 'dstar' for i in t.items):
                return True
            return False if not t.items else None
        if isinstance(t, (Closure,)):
            return True
        if isinstance(t, ProdVal):
            return True
        t = freeze(t)
        if is_const(t):
            return bool(t[1])
        if isinstance(t, tuple) and t:
            if t[0] == 'not':
                k = self.known_truth(t[1])
                return None if k is None else not k
            if t[0] in ('new', 'closure', 'ref'):
                return True
            if t[0] == 'sym' and len(t) > 4:
                if t[4] == ('op',):
                    return True
                if t[4] == ('none',):
                    return False
            if t[0] == 'tuple':
                return len(t) > 1
            if t[0] == 'list':
                if any(not (isinstance(e, tuple) and e and e[0] == 'star') for e in t[1:]):
                    return True
            if t in self.assumed:
                return self.assumed[t]
            if t[0] == 'cmp' and t[1] in ('==', '!=') and is_const(t[3]):
                if t[2] in self.eqs:
                    return (self.eqs[t[2]] == t[3][1]) == (t[1] == '==')
                if t[2] in self.neqs and t[3][1] in self.neqs[t[2]]:
                    return t[1] == '!='
        return None

    def truth(self, t, node=None) -> bool:
        k = self.known_truth(t)
        if k is not None:
            return k
        ft = freeze(t)
        if isinstance(ft, tuple) and ft[:2] == ('pcall', 'bool') and len(ft[2]) == 1:
            return self.truth(ft[2][0], node)          # bool(x) is true exactly when x is
        if isinstance(ft, tuple) and ft[:1] == ('call',) and ft[2] == ('ref', 'builtin', 'bool') and len(ft[3]) == 1 and not ft[4]:
            return self.truth(ft[3][0], node)
        if isinstance(ft, tuple) and ft and ft[0] == 'not':
            return not self.truth(ft[1], node)
        # choice 0 = True branch first (source order of if/else)
        b = self.choose(2, 'truth') == 0
        self.assume(ft, b, node)
        return b

    def assume(self, ft, b, node):
        self.assumed[ft] = b
        self.assump_log.append((ft, b, node))
        self.emit('assume', node, cond=ft, value=b)
        if isinstance(ft, tuple) and ft and ft[0] == 'cmp' and is_const(ft[3]):
            if (ft[1] == '==' and b) or (ft[1] == '!=' and not b):
                self.eqs[ft[2]] = ft[3][1]
            elif ft[1] in ('==', '!='):
                self.neqs.setdefault(ft[2], set()).add(ft[3][1])

    # ------------------------------------------------------- comprehensions
    def _comp_unrolled(self, e, fr, kind):
        """A list/dict/set/generator comprehension with several `for` clauses or `if` filters whose iterables are all known
        spines and whose filters all fold: the elements in order; None when anything is unknown (nothing is recorded then)."""
        if len(e.generators) == 1 and not e.generators[0].ifs:
            return None                                   # the single-clause case is handled by the caller
        if kind not in ('list', 'dict') or any(g.is_async for g in e.generators):
            return None
        n_ev, n_as = len(self.events), len(self.assump_log)
        inner = Frame(fr.module, fr.qual, fr.cls, env={}, outer=fr, self_name=fr.self_name)
        out = []
        budget = [256]

        class _No(Exception):
            pass

        def spine_of(it):
            if isinstance(it, ListVal) and it.concrete():
                return list(it.elts)
            if isinstance(it, tuple) and it[:1] in (('tuple',), ('list',)) and \
                    not any(isinstance(x, tuple) and x[:1] == ('star',) for x in it[1:]):
                return list(it[1:])
            if isinstance(it, DictVal) and all(i[0] != 'dstar' and is_const(freeze(i[0])) for i in it.items):
                ks = []
                for k_, _ in it.items:
                    if freeze(k_) not in ks:
                        ks.append(freeze(k_))
                return ks
            raise _No()

        def rec(gi):
            if gi == len(e.generators):
                budget[0] -= 1
                if budget[0] < 0:
                    raise _No()
                if kind == 'dict':
                    out.append((self.ev(e.key, inner), self.ev(e.value, inner)))
                else:
                    out.append(self.ev(e.elt, inner))
                return
            g = e.generators[gi]
            for el in spine_of(self.ev(g.iter, inner if gi else fr)):
                self.assign(g.target, el, inner, e)
                ok = True
                for c in g.ifs:
                    k = self.known_truth(self.ev(c, inner))
                    if k is None:
                        raise _No()
                    if not k:
                        ok = False
                        break
                if ok:
                    rec(gi + 1)
        try:
            rec(0)
        except _No:
            del self.events[n_ev:]
            del self.assump_log[n_as:]
            return None
        return DictVal(out, self.fresh()) if kind == 'dict' else ListVal(out, self.fresh())

    def _comp(self, e, fr, kind):
        un = self._comp_unrolled(e, fr, kind)
        if un is not None:
            return un
        cid = self.fresh()
        inner = Frame(fr.module, fr.qual, fr.cls, env={}, outer=fr, self_name=fr.self_name)
        inner.self_name = fr.self_name
        gens = []
        pushed = 0
        concrete_iter = None
        try:
            for gi, g in enumerate(e.generators):
                it = self.ev(g.iter, inner if gi else fr)
                if isinstance(it, tuple) and it[:2] == ('ref', 'cls') and self._enum_members(it[2]) is not None:
                    it = ListVal([('ref', 'enum', it[2] + '.' + n_) for n_, _ in self._enum_members(it[2])], self.fresh())
                if isinstance(it, tuple) and it and it[0] == 'tuple' and len(it) > 1 and \
                        not any(isinstance(x, tuple) and x and x[0] == 'star' for x in it[1:]):
                    it = ListVal(list(it[1:]), self.fresh())
                if isinstance(it, DictVal) and it.items and all(i[0] != 'dstar' and is_const(freeze(i[0])) for i in it.items):
                    ks_ = []
                    for k_, _ in it.items:
                        if freeze(k_) not in ks_:
                            ks_.append(freeze(k_))
                    it = ListVal(ks_, self.fresh())         # iterating a dict whose keys are known: the keys in order
                if gi == 0 and len(e.generators) == 1 and not g.ifs and isinstance(it, ListVal) and it.concrete() \
                        and len(it.elts) <= (64 if fr.module.name in self.module_env else 16) and kind in ('list', 'dict'):
                    concrete_iter = (g, it)
                    break
                self.ctx.append(('comp', cid, freeze(it), kind, e))
                pushed += 1
                self.assign(g.target, ('elem', freeze(it), cid), inner, e)
                conds = []
                for c in g.ifs:
                    conds.append(freeze(self.ev(c, inner)))
                gens.append((norm(g.target), freeze(it), tuple(conds)))
            if concrete_iter is not None:
                g, it = concrete_iter
                if kind == 'list':
                    out = []
                    for el in it.elts:
                        self.assign(g.target, el, inner, e)
                        out.append(self.ev(e.elt, inner))
                    return ListVal(out, self.fresh())
                out = []
                for el in it.elts:
                    self.assign(g.target, el, inner, e)
                    k = self.ev(e.key, inner)
                    v = self.ev(e.value, inner)
                    out.append((k, v))
                return DictVal(out, self.fresh())
            if kind == 'dict':
                k = self.ev(e.key, inner)
                v = self.ev(e.value, inner)
                elt = ('kv', freeze(k), freeze(v))
            else:
                elt = freeze(self.ev(e.elt, inner))
            return ('comp', kind, elt, tuple(gens), cid)
        finally:
            for _ in range(pushed):
                self.ctx.pop()

    def ex_ListComp(self, e, fr):
        return self._comp(e, fr, 'list')

    def ex_SetComp(self, e, fr):
        return self._comp(e, fr, 'set')

    def ex_GeneratorExp(self, e, fr):
        return self._comp(e, fr, 'gen')

    def ex_DictComp(self, e, fr):
        return self._comp(e, fr, 'dict')

    def ex_Yield(self, e, fr):
        v = self.ev(e.value, fr) if e.value is not None else ('const', None)
        if self.yield_handlers and self.yield_handlers[-1][0] is fr:
            handler = self.yield_handlers[-1][1]
            hs = self.yield_handlers.pop()        # the consumer's code does not see this generator's handler
            try:
                handler(v)
            finally:
                self.yield_handlers.append(hs)
            return ('const', None)
        self.emit('yield', e, value=v, handlers=self._handlers())
        return ('unknown', 'sent')

    def _genexp_as_loop(self, ge, at):
        """`(elt for x in it if c ...)` consumed in place, as statements:  for x in it: if c: yield elt"""
        body: List[ast.stmt] = [ast.Expr(value=ast.Yield(value=ge.elt))]
        for g in reversed(ge.generators):
            if g.ifs:
                test = g.ifs[0] if len(g.ifs) == 1 else ast.BoolOp(op=ast.And(), values=list(g.ifs))
                body = [ast.If(test=test, body=body, orelse=[])]
            body = [ast.For(target=g.target, iter=g.iter, body=body, orelse=[], type_comment=None)]
        for b_ in body:
            for n in ast.walk(b_):
                if not hasattr(n, 'lineno'):
                    ast.copy_location(n, at)
            ast.fix_missing_locations(b_)
        return body

    def ex_YieldFrom(self, e, fr):
        if isinstance(e.value, ast.GeneratorExp) and not any(g.is_async for g in e.value.generators) \
                and self.package_generator(e.value.generators[0].iter, fr) is not None:
            self.exec_block(self._genexp_as_loop(e.value, e), fr)
            return ('const', None)
        two_arg_iter = isinstance(e.value, ast.Call) and isinstance(e.value.func, ast.Name) and e.value.func.id == 'iter' \
            and len(e.value.args) == 2 and not e.value.keywords and self.facts.resolve_name(fr.module, 'iter')[0] == 'builtin'
        if two_arg_iter or self.package_generator(e.value, fr) is not None:
            # yield from gen(...)  ==  for v in gen(...): yield v
            tmp = ast.Name(id='__yield_from_item', ctx=ast.Store())
            loop = ast.For(target=tmp, iter=e.value, body=[ast.Expr(value=ast.Yield(value=ast.Name(id='__yield_from_item', ctx=ast.Load())))],
                           orelse=[], type_comment=None)
            for n in ast.walk(loop):
                if not hasattr(n, 'lineno'):
                    ast.copy_location(n, e)
            ast.fix_missing_locations(loop)
            self.exec_block([loop], fr)
            return ('const', None)
        v = self.ev(e.value, fr)
        self.emit('yield', e, value=('star', freeze(v)), handlers=self._handlers())
        return ('unknown', 'sent')

    # ----------------------------------------------------------------- calls
    def type_of(self, t, fr: Frame) -> Optional[str]:
        """Package class of a term, from annotations / constructors."""
        t = freeze(t)
        if not isinstance(t, tuple) or not t:
            return None
        if t[0] in ('new', 'obj'):
            return t[1]
        if t[0] == 'ref' and t[1] == 'modvar':
            return self._singleton_class(t[2])
        if t[0] == 'param':
            # ('param', n) always names a parameter of the function under analysis, wherever the term has travelled
            for f0 in (getattr(self, 'top_frame', None), fr):
                f = f0
                while f is not None:
                    if t[1] in f.annotations:
                        r = self.facts.resolve_expr(f.module, f.annotations[t[1]])
                        if r[0] == 'cls':
                            return r[1]
                        break
                    if f.self_name == t[1] and f.cls:
                        return f.cls
                    f = f.outer
            return None
        if t[0] == 'never-param':
            f: Optional[Frame] = fr
            while f is not None:
                if t[1] in f.annotations:
                    r = self.facts.resolve_expr(f.module, f.annotations[t[1]])
                    return r[1] if r[0] == 'cls' else None
                if f.self_name == t[1] and f.cls:
                    return f.cls
                f = f.outer
            return None
        if t[0] == 'attr':
            bq = self.type_of(t[1], fr)
            if bq:
                for n, ann, d, q in self.facts.all_fields(bq):
                    if n == t[2] and ann is not None:
                        r = self.facts.resolve_expr(self.facts.cls(q).module, ann)
                        return r[1] if r[0] == 'cls' else None
                return self._attr_type_from_stores(bq, t[2])
        return None

    def _singleton_class(self, dotted: str) -> Optional[str]:
        """Package class of a module-level name bound once to `ClassName(...)` (a module-level singleton / null object)."""
        mod, _, var = dotted.rpartition('.')
        m = self.facts.modules.get(mod)
        rebinders = [fn for fn in ast.walk(m.tree) if isinstance(fn, (ast.FunctionDef, ast.AsyncFunctionDef))
                     and any(isinstance(n, ast.Global) and var in n.names for n in ast.walk(fn))] if m is not None else []
        vals = [v for v in m.assigns.get(var, [])] if m is not None else []
        if rebinders and all((mod + '.' + fn.name) in self.facts.host_only_functions() for fn in rebinders):
            vals = [v for v in vals if v is not None]       # (the `global` declarations of those functions were recorded as unknown re-bindings)
        if m is None or len(vals) != 1 or not isinstance(vals[0], ast.Call):
            return None
        if rebinders:
            # rebound only by configuration API the package itself never calls (set_error_hooks(...)): the stock object is followed
            if not all((mod + '.' + fn.name) in self.facts.host_only_functions() for fn in rebinders):
                return None
            self.facts.__dict__.setdefault('_ctor_options_assumed', set()).add('%s (stock object; replaced only through %s)' % (
                dotted, ', '.join(fn.name for fn in rebinders)))
        r = self.facts.resolve_expr(m, vals[0].func)
        return r[1] if r[0] == 'cls' else None

    def _attr_type_from_stores(self, cq: str, attr: str) -> Optional[str]:
        """Class of `self.<attr>` when every store to it in the class's methods is either a constructor call of one package
        class or a parameter annotated with it."""
        cache = self.facts.__dict__.setdefault('_attr_type_cache', {})
        key = (cq, attr)
        if key in cache:
            return cache[key]
        cache[key] = None
        found = set()
        for q in self.facts.mro(cq):
            ci = self.facts.classes.get(q)
            if ci is None:
                continue
            for mn, mnode in ci.methods.items():
                sp = mnode.args.args[0].arg if mnode.args.args else None
                anns = {a.arg: a.annotation for a in mnode.args.args + mnode.args.kwonlyargs if a.annotation is not None}
                for n in ast.walk(mnode):
                    if not isinstance(n, (ast.Assign, ast.AnnAssign)):
                        continue
                    tgts = n.targets if isinstance(n, ast.Assign) else [n.target]
                    for tg in tgts:
                        if isinstance(tg, ast.Attribute) and tg.attr == attr and isinstance(tg.value, ast.Name) and tg.value.id == sp:
                            v = n.value
                            r = None
                            if isinstance(v, ast.IfExp):
                                v = v.orelse if isinstance(v.orelse, ast.Name) else v.body
                            if isinstance(v, ast.Call):
                                r = self.facts.resolve_expr(ci.module, v.func)
                            elif isinstance(v, ast.Name) and v.id in anns:
                                a_ = anns[v.id]
                                if isinstance(a_, ast.Constant) and isinstance(a_.value, str):
                                    try:
                                        a_ = ast.parse(a_.value, mode='eval').body
                                    except SyntaxError:
                                        a_ = None
                                r = self.facts.resolve_expr(ci.module, a_) if a_ is not None else None
                            found.add(r[1] if r and r[0] == 'cls' else None)
        if len(found) == 1 and None not in found:
            cache[key] = next(iter(found))
        return cache[key]

    def _is_self(self, name, fr: Frame) -> bool:
        f: Optional[Frame] = fr
        while f is not None:
            if f.self_name == name and f.cls:
                return True
            if name in f.env and f.self_name != name:
                return False
            f = f.outer
        return False

    def resolve_callee(self, f, fr: Frame) -> Optional[str]:
        """Qualified package function a call term resolves to, if any."""
        if isinstance(f, Closure):
            return None
        f = freeze(f)
        if not isinstance(f, tuple) or not f:
            return None
        if f[0] == 'ref' and f[1] in ('fn', 'fnraw'):
            return f[2]
        if f[0] == 'attr':
            b = f[1]
            if isinstance(b, tuple) and b and b[0] == 'super':
                return self.facts.find_method(b[1], f[2], after=b[2])
            q = self.type_of(b, fr)
            if q:
                m = self.facts.find_method(q, f[2])
                exact = (isinstance(b, tuple) and b and (b[0] == 'new' or (
                    b[0] == 'param' and self._is_self(b[1], fr))))
                if m and not exact:
                    # receiver typed by annotation only: dynamic dispatch unless nobody overrides
                    if (m.rsplit('.', 1)[0], f[2]) in self.facts.__dict__.get('dynamic_methods', ()):
                        return None         # the inherited body behaves differently per concrete class (hooks / visitor)
                    for sub in self.facts.subclasses(q):
                        if sub != q and self.facts.find_method(sub, f[2]) != m:
                            return None
                return m
            if isinstance(b, tuple) and b and b[0] == 'ref' and b[1] == 'cls':
                return self.facts.find_method(b[2], f[2])
        return None

    def ex_Call(self, e, fr):
        # super() is syntax as far as we are concerned
        if isinstance(e.func, ast.Name) and e.func.id == 'super' and not e.args and 'super' not in fr.env:
            f: Optional[Frame] = fr
            while f is not None and not (f.cls and f.self_name):
                f = f.outer
            if f is None:
                raise Unrecognised('super() outside a method in %s' % fr.qual)
            # the class whose method body we are in: derive from the qualified name of the frame
            here = f.cls
            if f is getattr(self, 'top_frame', None) and self.closure is None and f.cls in self.facts.classes:
                # an inherited method analysed as a method of a subclass: super() is relative to the class that defines it
                for cq in self.facts.mro(f.cls):
                    ci_ = self.facts.classes.get(cq)
                    if ci_ is not None and any(v is self.fi.node for v in ci_.methods.values()):
                        here = cq
                        break
            elif f.qual.rsplit('.', 1)[0] in self.facts.classes:
                here = f.qual.rsplit('.', 1)[0]
            return ('super', self._dynamic_cls(f), here, freeze(f.env.get(f.self_name)))
        func = self.ev(e.func, fr)
        if freeze(func) in (('ref', 'builtin', 'list'), ('ref', 'builtin', 'tuple')) and len(e.args) == 1 and not e.keywords \
                and isinstance(e.args[0], ast.GeneratorExp):
            args = [self._comp(e.args[0], fr, 'list')]      # list(genexp) / tuple(genexp): consumed completely, in order
        else:
            args = self._elts(e.args, fr)
        kwargs: List[Tuple[Optional[str], Any]] = []
        for kw in e.keywords:
            v = self.ev(kw.value, fr)
            if kw.arg is None and isinstance(v, DictVal) and all(it[0] != 'dstar' and is_const(freeze(it[0])) and
                                                                 isinstance(freeze(it[0])[1], str) for it in v.items):
                kwargs.extend((freeze(k)[1], val) for k, val in v.items)      # **{known keys}
                continue
            kwargs.append((kw.arg, v))
        return self.call(func, args, kwargs, e, fr)

    def _dynamic_cls(self, f: Frame) -> str:
        return f.cls  # the static class; receivers are analysed per class

    def _module_callable(self, ff):
        """For a module-level name bound at import time to an object the evaluator can call: (kind, value).
        kind 'closure': a function built by a factory; kind 'instance': an instance of a package class with __call__."""
        if not (isinstance(ff, tuple) and ff[:2] == ('ref', 'modvar')) or self.fi.qual.endswith('.<module>'):
            return None
        mod, _, var = ff[2].rpartition('.')
        m = self.facts.modules.get(mod)
        if m is None or var not in m.assigns or len(m.assigns[var]) != 1 or not isinstance(m.assigns[var][0], ast.Call):
            return None
        if any(isinstance(n, ast.Global) and var in n.names for n in ast.walk(m.tree)):
            return None
        v = exec_module_body(self.facts, m).get(var)
        if isinstance(v, Closure):
            return ('closure', v)
        if isinstance(v, PartialVal) and not has_live(v.args) and not any(has_live(x) for _, x in v.kwargs):
            return ('partial', v)                   # functools.partial(f, <constants>) made at import
        fv_ = freeze(v) if not isinstance(v, (ListVal, DictVal, PartialVal)) else None
        if isinstance(fv_, tuple) and fv_[:1] == ('call',) and len(fv_) >= 5 and fv_[2] in (
                ('ref', 'ext', 'operator.methodcaller'), ('ref', 'ext', 'operator.itemgetter'), ('ref', 'ext', 'operator.attrgetter')) \
                and fv_[3] and all(is_const(x) for x in fv_[3]) and not fv_[4]:
            return ('opobj', fv_[2][2].split('.')[1], fv_[3])
        if isinstance(v, tuple) and v[:1] == ('new',) and v[1] in self.facts.classes:
            cq = self.facts.find_method(v[1], '__call__')
            if cq and cq in self.facts.functions:
                return ('instance', v, cq)
        return None

    def call(self, func, args, kwargs, node, fr: Frame):
        if isinstance(func, tuple) and func[:1] == ('new',) and len(func) > 3 and func[1] in self.facts.classes and self.inline:
            # an instance of a package class with __call__ (a frozen record made at import, or an object built on this path)
            cq_ = self.facts.find_method(func[1], '__call__')
            key_ = '%s@%s' % (cq_, func[3])
            if cq_ and cq_ in self.facts.functions and key_ not in self.stack and len(self.stack) < MAX_INLINE:
                return self._inline_call(cq_, [func] + list(args), kwargs, node, ('attr', freeze(func), '__call__'), stack_key=key_)
        mc = self._module_callable(freeze(func)) if not isinstance(func, (Closure, PartialVal)) else None
        if mc is not None and self.inline and len(self.stack) < MAX_INLINE:
            if mc[0] in ('closure', 'partial'):
                return self.call(mc[1], args, kwargs, node, fr)
            if mc[0] == 'opobj':
                if mc[1] == 'methodcaller' and len(args) == 1 and not kwargs and isinstance(mc[2][0][1], str):
                    # operator.methodcaller('name', *a)(obj) is obj.name(*a)
                    return self.call(self.attr(args[0], mc[2][0][1], node, fr), list(mc[2][1:]), [], node, fr)
                if mc[1] == 'itemgetter' and len(args) == 1 and not kwargs and len(mc[2]) == 1:
                    return self.subscript(args[0], mc[2][0], node, fr)
                if mc[1] == 'attrgetter' and len(args) == 1 and not kwargs and len(mc[2]) == 1 and isinstance(mc[2][0][1], str) \
                        and '.' not in mc[2][0][1]:
                    return self.attr(args[0], mc[2][0][1], node, fr)
                mc = None
        if mc is not None and self.inline and len(self.stack) < MAX_INLINE:
            key_ = mc[2] + '@' + freeze(func)[2]          # recursion is per callable object, not per class
            if key_ not in self.stack:
                return self._inline_call(mc[2], [mc[1]] + list(args), kwargs, node, ('attr', freeze(func), '__call__'), stack_key=key_)
        if isinstance(func, PartialVal):
            return self.call(func.func, list(func.args) + list(args), list(func.kwargs) + list(kwargs), node, fr)
        ff = freeze(func)
        if ff == ('ref', 'ext', 'functools.partial') and args:
            return PartialVal(args[0], args[1:], kwargs)
        if ff == ('ref', 'ext', 'dict.fromkeys') and 1 <= len(args) <= 2 and not kwargs:
            ks_ = args[0].elts if isinstance(args[0], ListVal) and args[0].concrete() else (
                list(args[0][1:]) if isinstance(args[0], tuple) and args[0][:1] == ('tuple',) else None)
            if ks_ is not None and all(is_const(freeze(k_)) for k_ in ks_):
                return DictVal([(freeze(k_), args[1] if len(args) == 2 else ('const', None)) for k_ in ks_], self.fresh())
        fargs = tuple(freeze(a) for a in args)
        fkw = tuple((k, freeze(v)) for k, v in kwargs)
        if isinstance(ff, tuple) and ff[:2] == ('ref', 'cls') and len(args) == 1 and not kwargs and is_const(fargs[0]):
            mem = self._enum_members(ff[2])
            if mem is not None:
                for n_, v_ in mem:
                    if v_ == fargs[0][1] and type(v_) == type(fargs[0][1]):
                        return ('ref', 'enum', ff[2] + '.' + n_)        # EnumClass(value): the member with that value
                exc = ('call', self.fresh(), ('ref', 'builtin', 'ValueError'), (), ())
                self.emit('raise', node, exc=exc, implicit=True)
                raise _Raise(exc, node)
        # ---- folding of a few pure builtins on known values
        if isinstance(ff, tuple) and ff[:2] == ('ref', 'builtin'):
            name = ff[2]
            if name in ('globals', 'vars', 'locals') and not args and not kwargs and fr is not None \
                    and self.module_env.get(fr.module.name) is not None and (name == 'globals' or fr.qual.endswith('.<module>')):
                return GlobalsVal(self.module_env[fr.module.name], fr.module.name)
            if name == 'len' and len(args) == 1:
                a = args[0]
                if isinstance(a, ProdVal):
                    return ('const', len(a.values) + 1)
                if isinstance(a, ListVal) and a.concrete():
                    return ('const', len(a.elts))
                if isinstance(a, tuple) and a and a[0] == 'tuple':
                    return ('const', len(a) - 1)
                if is_const(a) and isinstance(a[1], str):
                    return ('const', len(a[1]))
            if name == 'isinstance' and len(args) == 2:
                k = self._isinstance(args[0], fargs[1])
                if k is not None:
                    return ('const', k)
            if name == 'issubclass' and len(args) == 2 and isinstance(fargs[0], tuple) and fargs[0][:1] == ('ref',) \
                    and fargs[0][1] in ('builtin', 'ext', 'cls'):
                bases_ = [fargs[1]] if not (isinstance(fargs[1], tuple) and fargs[1][:1] == ('tuple',)) else list(fargs[1][1:])
                if all(isinstance(b_, tuple) and b_[:1] == ('ref',) and b_[1] in ('builtin', 'ext', 'cls') for b_ in bases_):
                    vs_ = [self.exc_subclass((fargs[0][1], fargs[0][2]), (b_[1], b_[2])) for b_ in bases_]
                    if any(v_ is True for v_ in vs_):
                        return ('const', True)
                    if all(v_ is False for v_ in vs_):
                        return ('const', False)
            def spine(a):
                if isinstance(a, ListVal) and a.concrete():
                    return list(a.elts)
                if isinstance(a, tuple) and a and a[0] == 'tuple' and not any(isinstance(x, tuple) and x and x[0] == 'star' for x in a[1:]):
                    return list(a[1:])
                if isinstance(a, tuple) and a[:1] == ('new',) and len(a) > 2 and a[1] in self.facts.classes and self._namedtuple_fields(a[1]) is not None \
                        and not any(isinstance(v_, tuple) and v_[:1] == ('default',) for _, v_ in a[2]):
                    return [v_ for _, v_ in a[2]]          # a NamedTuple record: its fields in order
                return None
            # iteration helpers over a known spine give a known spine (they are only ever consumed by loops here)
            if name == 'reversed' and len(args) == 1 and not kwargs and spine(args[0]) is not None:
                return IterVal(list(reversed(spine(args[0]))), self.fresh())
            if name == 'iter' and len(args) == 1 and not kwargs and spine(args[0]) is not None:
                return IterVal(list(spine(args[0])), self.fresh())
            if name == 'next' and 1 <= len(args) <= 2 and not kwargs and isinstance(args[0], IterVal):
                if args[0].elts:
                    return args[0].elts.pop(0)
                if len(args) == 2:
                    return args[1]
                exc = ('call', self.fresh(), ('ref', 'builtin', 'StopIteration'), (), ())
                self.emit('raise', node, exc=exc, implicit=True)
                raise _Raise(exc, node)
            if name == 'range' and 1 <= len(args) <= 3 and not kwargs and all(
                    is_const(a) and isinstance(a[1], int) and not isinstance(a[1], bool) for a in fargs):
                try:
                    rng = range(*[a[1] for a in fargs])
                    if len(rng) <= 32:
                        return ListVal([('const', i) for i in rng], self.fresh())
                except (ValueError, TypeError):
                    pass
            if name == 'enumerate' and len(args) == 1 and not kwargs and spine(args[0]) is not None:
                return ListVal([('tuple', ('const', i), freeze(x) if not isinstance(x, (ListVal, DictVal, Closure, ProdVal)) else x)
                                for i, x in enumerate(spine(args[0]))], self.fresh())
            if name == 'zip' and len(args) >= 2 and not kwargs and all(spine(a) is not None for a in args):
                cols = [spine(a) for a in args]
                return ListVal([('tuple',) + tuple(freeze(x) if not isinstance(x, (ListVal, DictVal, Closure, ProdVal)) else x for x in row)
                                for row in zip(*cols)], self.fresh())
            if name == 'list' and len(args) == 1 and isinstance(args[0], tuple) and args[0] and args[0][0] == 'tuple':
                return ListVal(list(args[0][1:]), self.fresh())
            if name == 'tuple' and len(args) == 1 and isinstance(args[0], ListVal):
                return ('tuple',) + tuple(keep(x) for x in args[0].elts)
            if name == 'tuple' and len(args) == 1 and isinstance(args[0], tuple) and args[0] and args[0][0] == 'tuple':
                return args[0]
            if name in ('list', 'tuple') and len(args) == 1 and isinstance(args[0], ListVal) and name == 'list':
                self.emit('call', node, func=ff, args=fargs, kwargs=fkw, resolved=None, result=None,
                          handlers=self._handlers())
                return ListVal(args[0].elts, self.fresh())
            if name == 'frozenset' and len(args) == 1 and not kwargs and spine(args[0]) is not None \
                    and all(is_const(freeze(x)) for x in spine(args[0])):
                seen_ = []
                for x in spine(args[0]):
                    if freeze(x) not in seen_:
                        seen_.append(freeze(x))
                return ('set',) + tuple(seen_)          # frozenset of known constants
            if name == 'list' and not args:
                return ListVal([], self.fresh())
            if name == 'dict' and not args and not kwargs:
                return DictVal([], self.fresh())
            if name == 'dict' and not args and kwargs and all(isinstance(k, str) for k, _ in kwargs):
                return DictVal([(('const', k), v) for k, v in kwargs], self.fresh())       # dict(a=1, b=2)
            if name == 'dict' and len(args) == 1 and isinstance(args[0], DictVal) and all(isinstance(k, str) for k, _ in kwargs):
                return DictVal(list(args[0].items) + [(('const', k), v) for k, v in kwargs], self.fresh())
            if name == 'getattr' and len(args) == 2 and not kwargs and is_const(freeze(args[1])) and isinstance(freeze(args[1])[1], str) \
                    and isinstance(freeze(args[0]), tuple) and freeze(args[0])[:1] == ('ref',):
                return self.attr(args[0], freeze(args[1])[1], node, fr)          # getattr(str, 'lower') is str.lower
            if name == 'range' and args and all(is_const(a) and isinstance(a[1], int) for a in args) \
                    and len(range(*[a[1] for a in args])) <= 16:
                return ListVal([('const', i) for i in range(*[a[1] for a in args])], self.fresh())
        # ---- pure str methods on a constant receiver with constant arguments
        if isinstance(ff, tuple) and ff[:1] == ('attr',) and is_const(ff[1]) and isinstance(ff[1][1], str) and ff[2] in PURE_STR_METHODS \
                and all(is_const(a) and isinstance(a[1], (str, int, type(None))) for a in fargs) and not kwargs:
            try:
                res_ = getattr(ff[1][1], ff[2])(*[a[1] for a in fargs])
            except Exception:
                res_ = NotImplemented
            if isinstance(res_, (str, bool, int)):
                return ('const', res_)
            if isinstance(res_, (list, tuple)) and all(isinstance(x, str) for x in res_):
                if isinstance(res_, list):
                    return ListVal([('const', x) for x in res_], self.fresh())
                return ('tuple',) + tuple(('const', x) for x in res_)
        if isinstance(ff, tuple) and ff[:1] == ('attr',) and is_const(ff[1]) and isinstance(ff[1][1], str) and ff[2] == 'format' \
                and all(is_const(a) and isinstance(a[1], (str, int)) for a in fargs) \
                and all(isinstance(k, str) and is_const(v) and isinstance(v[1], (str, int)) for k, v in fkw):
            try:
                return ('const', ff[1][1].format(*[a[1] for a in fargs], **{k: v[1] for k, v in fkw}))
            except Exception:
                pass
        if isinstance(ff, tuple) and ff[:1] == ('attr',) and is_const(ff[1]) and isinstance(ff[1][1], str) and ff[2] == 'join' \
                and len(args) == 1 and not kwargs:
            a_ = args[0]
            sp_ = a_.elts if isinstance(a_, ListVal) and a_.concrete() else (list(a_[1:]) if isinstance(a_, tuple) and a_[:1] == ('tuple',) else None)
            if sp_ is not None and all(is_const(freeze(x)) and isinstance(freeze(x)[1], str) for x in sp_):
                return ('const', ff[1][1].join(freeze(x)[1] for x in sp_))
        # ---- TABLE.get(const[, default]) on a module-level dispatch table
        if isinstance(ff, tuple) and ff and ff[0] == 'attr' and ff[2] == 'get' and isinstance(ff[1], tuple) and ff[1][:2] == ('ref', 'modvar') \
                and args and is_const(freeze(args[0])) and not kwargs:
            hit = self.modvar_table_entry(ff[1][2], freeze(args[0])[1])
            if hit is not None:
                if hit[0]:
                    return hit[1]
                return args[1] if len(args) > 1 else ('const', None)
        if isinstance(ff, tuple) and ff[:1] == ('call',) and len(ff) >= 4 and ff[2] in (('ref', 'ext', 'smartquery.ply.lex.TOKEN'), ('ref', 'ext', 'smartquery.ply.lex.Token')) \
                and len(ff[3]) == 1 and len(args) == 1 and not kwargs:
            # TOKEN(regex)(f): f itself, carrying the regex PLY reads from it
            return ('tokenrule', ff[3][0], keep(args[0]))
        if ff == ('ref', 'ext', 'collections.ChainMap') and not kwargs and not any(isinstance(a, tuple) and a[:1] == ('star',) for a in args):
            # collections.ChainMap(m0, m1, ...): an object whose .maps is that list (first mapping = where writes go)
            eid_ = self.fresh()
            self.created.add(eid_)
            maps_ = ListVal([keep(a) for a in args] if args else [DictVal([], self.fresh())], self.fresh())
            self.heap.setdefault(eid_, {})['maps'] = maps_
            return ('new', 'collections.ChainMap', (('maps', ('list',)),), eid_)
        if isinstance(ff, tuple) and ff[:1] == ('attr',) and ff[2] == '_asdict' and not args and not kwargs and isinstance(func, tuple) \
                and isinstance(func[1], tuple) and func[1][:1] == ('new',) and self._namedtuple_fields(func[1][1]) is not None:
            # NamedTuple._asdict(): field name -> value, in declaration order
            return DictVal([(('const', n_), keep(v_)) for n_, v_ in func[1][2]], self.fresh())
        if ff == ('ref', 'ext', 'typing.cast') and len(args) == 2 and not kwargs:
            return args[1]                      # typing.cast(T, x) is x
        if ff in (('ref', 'ext', 'typing.assert_type'), ('ref', 'ext', 'typing.reveal_type')) and args and not kwargs:
            return args[0]
        if ff == ('ref', 'ext', 'functools.reduce') and 2 <= len(args) <= 3 and not kwargs:
            # reduce(f, xs[, init]) over a known spine is the left fold, call by call
            a_ = args[1]
            sp_ = list(a_.elts) if isinstance(a_, ListVal) and a_.concrete() else (
                list(a_[1:]) if isinstance(a_, tuple) and a_[:1] == ('tuple',) and not any(isinstance(x, tuple) and x[:1] == ('star',) for x in a_[1:]) else None)
            if sp_ is not None and len(sp_) <= 32 and (len(args) == 3 or sp_):
                acc_ = args[2] if len(args) == 3 else sp_.pop(0)
                for el_ in sp_:
                    acc_ = self.call(args[0], [acc_, el_], [], node, fr)
                return acc_
        if ff == ('ref', 'ext', 're.escape') and len(fargs) == 1 and not kwargs and is_const(fargs[0]) and isinstance(fargs[0][1], str):
            import re as _re
            return ('const', _re.escape(fargs[0][1]))
        # ---- the operator module spells the operators as functions
        if isinstance(ff, tuple) and ff[:2] == ('ref', 'ext') and ff[2].startswith('operator.') and not kwargs:
            name = ff[2].split('.', 1)[1]
            # operator.getitem / setitem / delitem / contains spell the subscript statements as calls
            if name == 'getitem' and len(args) == 2:
                return self.subscript(args[0], args[1], node, fr)
            if name == 'setitem' and len(args) == 3:
                self.emit('store_sub', node, obj=args[0], index=args[1], value=args[2], handlers=self._handlers())
                return ('const', None)
            if name == 'delitem' and len(args) == 2:
                self.emit('del_sub', node, obj=args[0], index=args[1], handlers=self._handlers())
                return ('const', None)
            if name == 'contains' and len(args) == 2:
                return self.compare('in', args[1], args[0], node)
            if name == 'not_' and len(args) == 1:
                k_ = self.known_truth(args[0])
                return ('const', not k_) if k_ is not None else ('not', freeze(args[0]))
            if name == 'truth' and len(args) == 1:
                return ('pcall', 'bool', (freeze(args[0]),))
            binops = {'add': '+', 'sub': '-', 'mul': '*', 'truediv': '/', 'floordiv': '//', 'mod': '%', 'pow': '**',
                      'lshift': '<<', 'rshift': '>>', 'or_': '|', 'and_': '&', 'xor': '^', 'concat': '+'}
            cmps = {'eq': '==', 'ne': '!=', 'lt': '<', 'le': '<=', 'gt': '>', 'ge': '>=', 'is_': 'is', 'is_not': 'is not'}
            if name in binops and len(args) == 2:
                return self.binop(binops[name], args[0], args[1], node)
            inplace = {'iadd': '+', 'isub': '-', 'imul': '*', 'itruediv': '/', 'ifloordiv': '//', 'imod': '%', 'ipow': '**',
                       'iconcat': '+', 'ior': '|', 'iand': '&', 'ixor': '^', 'ilshift': '<<', 'irshift': '>>'}
            if name in inplace and len(args) == 2:
                # operator.iadd(a, b) is `a += b`: may update `a` in place, returns the result
                self.emit('inplace_op', node, op=inplace[name], target=args[0], value=args[1])
                return self.binop(inplace[name], args[0], args[1], node)
            if name in cmps and len(args) == 2:
                return self.compare(cmps[name], args[0], args[1], node)
            if name == 'contains' and len(args) == 2:
                return self.compare('in', args[1], args[0], node)
            if name == 'neg' and len(args) == 1:
                return ('unop', '-', freeze(args[0]))
            if name == 'not_' and len(args) == 1:
                k = self.known_truth(args[0])
                return ('const', not k) if k is not None else ('not', freeze(args[0]))
        recv = None
        if isinstance(node, ast.Call) and isinstance(node.func, ast.Attribute):
            recv = getattr(self, '_last_recv', None)
        # constructor of a package class -> structured term
        if isinstance(ff, tuple) and ff[:2] == ('ref', 'cls') and ff[2] in self.facts.classes:
            ev_ = self.emit('call', node, func=ff, args=fargs, kwargs=fkw, resolved=ff[2], ctor=True,
                            handlers=self._handlers())
            t = self._construct(ff[2], args, kwargs, node, fr, ev_.eid)
            ev_.d['result'] = freeze(t)
            return t
        if isinstance(ff, tuple) and ff[:1] == ('attr',) and isinstance(ff[1], tuple) and ff[1][:2] == ('ref', 'modvar') and len(ff[1]) == 3 \
                and ff[2] in ('debug', 'info'):       # (warning and above are emitted - to stderr - under the stock logging configuration)
            from .props.common import is_module_logger
            if is_module_logger(self.facts, ff[1][2]):
                # a line for the host's diagnostic channel: recorded, but not a call any rule has to reason about
                self.emit('log', node, func=ff, args=fargs, kwargs=fkw)
                return ('const', None)
        if isinstance(ff, tuple) and ff[:1] == ('attr',) and isinstance(ff[1], tuple) and ff[1][:2] == ('ref', 'modvar') and len(ff[1]) == 3 \
                and ff[2] in ('isEnabledFor', 'getEffectiveLevel'):
            from .props.common import is_module_logger
            if is_module_logger(self.facts, ff[1][2]):
                # `if logger.isEnabledFor(DEBUG):` - the host's setting, either way
                self.emit('log', node, func=ff, args=fargs, kwargs=fkw)
                return ('unknown', 'logging-level:%d' % self.fresh())
        resolved = self.resolve_callee(func, fr)
        pure = isinstance(ff, tuple) and ff[:2] == ('ref', 'builtin') and ff[2] in PURE_BUILTINS
        if ff == ('ref', 'builtin', 'isinstance') and len(fargs) == 2 and isinstance(fargs[1], tuple) and fargs[1][:1] == ('tuple',) and len(fargs[1]) == 2:
            fargs = (fargs[0], fargs[1][1])         # isinstance(x, (T,)) is isinstance(x, T)
        recv_type = None
        if isinstance(ff, tuple) and ff and ff[0] == 'attr' and isinstance(ff[1], tuple) and ff[1] and ff[1][0] != 'super':
            recv_type = self.type_of(ff[1], fr)
        eid_holder = self.emit('call', node, func=ff, args=fargs, kwargs=fkw, resolved=resolved,
                               handlers=self._handlers(), closure=func if isinstance(func, Closure) else None,
                               recv_type=recv_type)
        if pure:
            res: Any = ('pcall', ff[2], fargs)
            eid_holder.d['result'] = res
            return res
        # mutation of known spines (append & co) keeps template lists concrete
        if isinstance(ff, tuple) and ff and ff[0] == 'attr':
            pass
        result: Any = ('call', eid_holder.eid, ff, fargs, fkw)
        # ---- inlining
        target_node = None
        callee_frame = None
        if isinstance(func, Closure) and self.inline:
            target_node = func.node
            callee_frame = Frame(func.module, func.qual, func.cls, env={}, outer=func.outer)
            qual = func.qual
            bind_args = list(args)
        elif resolved and self.inline and resolved in self.facts.functions and not (isinstance(ff, tuple) and ff[:2] == ('ref', 'fnraw')) \
                and isinstance(self.facts.functions[resolved].node, ast.FunctionDef) \
                and self.package_decorators(self.facts.functions[resolved].module, self.facts.functions[resolved].node) \
                and ('deco:' + resolved) not in self.stack and len(self.stack) < MAX_INLINE:
            fi = self.facts.functions[resolved]
            self.stack.append('deco:' + resolved)
            try:
                w = self.decorated_value(fi.module, fi.node, resolved)
                eid_holder.d['inlined'] = True
                eid_holder.d['via_decorator'] = True
                bind_args = list(args)
                if fi.cls and not _is_static(fi.node) and isinstance(ff, tuple) and ff[0] == 'attr' and not (
                        isinstance(ff[1], tuple) and ff[1][:2] == ('ref', 'cls')):
                    bind_args = [ff[1][3] if ff[1][:1] == ('super',) else ff[1]] + bind_args
                v = self.call(w, bind_args, kwargs, node, fr)
                eid_holder.d['result'] = v
                return v
            finally:
                self.stack.pop()
        elif resolved and self.inline and resolved in self.facts.functions and isinstance(self.facts.functions[resolved].node, ast.FunctionDef) \
                and _has_decorator(self.facts.functions[resolved].node, 'singledispatch') and args \
                and ('dispatch:' + resolved) not in self.stack and len(self.stack) < MAX_INLINE:
            # functools.singledispatch: the implementation registered for the class of the first argument, else the generic body
            fi = self.facts.functions[resolved]
            regs = []
            for name_, node_ in fi.module.defs.items():
                if not isinstance(node_, ast.FunctionDef):
                    continue
                for d in node_.decorator_list:
                    if isinstance(d, ast.Call) and isinstance(d.func, ast.Attribute) and d.func.attr == 'register' and \
                            isinstance(d.func.value, ast.Name) and d.func.value.id == fi.node.name and len(d.args) == 1:
                        regs.append((node_.lineno, d.args[0], fi.module.name + '.' + name_))
            eid_holder.d['inlined'] = True
            eid_holder.d['singledispatch'] = True
            self.stack.append('dispatch:' + resolved)
            try:
                mfr = Frame(fi.module, fi.module.name + '.<dispatch>', None)
                for _, tnode, impl in sorted(regs, key=lambda r: r[0]):
                    tref = self.ev(tnode, mfr)
                    t_ = self.call(('ref', 'builtin', 'isinstance'), [args[0], tref], [], node, fr)
                    if self.truth(t_, node):
                        v = self.call(('ref', 'fnraw', impl), list(args), kwargs, node, fr)
                        eid_holder.d['result'] = v
                        return v
                v = self.call(('ref', 'fnraw', resolved), list(args), kwargs, node, fr)
                eid_holder.d['result'] = v
                return v
            finally:
                self.stack.pop()
        elif resolved and self.inline and resolved in self.facts.functions:
            fi = self.facts.functions[resolved]
            qual = resolved
            target_node = fi.node
            callee_frame = Frame(fi.module, qual, fi.cls)
            bind_args = list(args)
            if fi.cls and _has_decorator(fi.node, 'classmethod'):
                recvc = ff[1] if isinstance(ff, tuple) and ff[0] == 'attr' else None
                if isinstance(recvc, tuple) and recvc[:2] == ('ref', 'cls'):
                    bind_args = [recvc] + bind_args
                else:
                    bind_args = [('ref', 'cls', fi.cls)] + bind_args
            elif fi.cls and not _is_static(fi.node):
                # bound call: receiver first
                if isinstance(ff, tuple) and ff[0] == 'attr':
                    b = ff[1]
                    if isinstance(b, tuple) and b and b[0] == 'super':
                        bind_args = [b[3]] + bind_args
                    elif isinstance(b, tuple) and b and b[0] == 'ref' and b[1] == 'cls':
                        pass   # Base.eval(self, state): explicit receiver
                    else:
                        bind_args = [b] + bind_args
        if target_node is not None and callee_frame is not None:
            if qual in self.stack or len(self.stack) >= MAX_INLINE or _is_generator(target_node):
                eid_holder.d['inlined'] = False
                eid_holder.d['result'] = result
                return result
            ok = self._bind_params(callee_frame, target_node, bind_args, kwargs)
            if ok:
                eid_holder.d['inlined'] = True
                self.stack.append(qual)
                self.fn_stack.append(qual)
                self.ctx.append(('inline', eid_holder.eid, qual))
                try:
                    try:
                        v = self._exec_body_of(target_node, callee_frame)
                    except _Return as r:
                        v = r.value
                    eid_holder.d['result'] = v
                    return v
                finally:
                    self.ctx.pop()
                    self.fn_stack.pop()
                    self.stack.pop()
        eid_holder.d['inlined'] = False
        eid_holder.d['result'] = result
        return result

    def _inline_call(self, qual, args, kwargs, node, func_term, stack_key=None):
        fi = self.facts.functions[qual]
        callee = Frame(fi.module, qual, fi.cls)
        ev_ = self.emit('call', node, func=freeze(func_term), args=tuple(freeze(a) for a in args), kwargs=tuple((k, freeze(v)) for k, v in kwargs),
                        resolved=qual, handlers=self._handlers(), closure=None, recv_type=None)
        if not self._bind_params(callee, fi.node, list(args), kwargs):
            ev_.d['inlined'] = False
            res = ('call', ev_.eid, freeze(func_term), tuple(freeze(a) for a in args), ())
            ev_.d['result'] = res
            return res
        ev_.d['inlined'] = True
        self.stack.append(stack_key or qual)
        self.fn_stack.append(qual)
        self.ctx.append(('inline', ev_.eid, qual))
        try:
            try:
                v = self._exec_body_of(fi.node, callee)
            except _Return as r:
                v = r.value
            ev_.d['result'] = v
            return v
        finally:
            self.ctx.pop()
            self.fn_stack.pop()
            self.stack.pop()

    def _isinstance(self, v, cls_term) -> Optional[bool]:
        """Fold isinstance for values whose kind is known (grammar symbols, literals)."""
        def names(ct):
            if isinstance(ct, tuple) and ct and ct[0] == 'tuple':
                out = []
                for x in ct[1:]:
                    out.extend(names(x))
                return out
            if isinstance(ct, tuple) and ct and ct[0] == 'ref':
                return [(ct[1], ct[2])]
            return [None]
        cs = names(cls_term)
        if ('builtin', 'object') in cs:
            return True                      # everything is an object
        if None in cs:
            return None
        fv = freeze(v)
        kind = None
        if isinstance(v, ListVal) or (isinstance(fv, tuple) and fv and fv[0] in ('list', 'symlist')):
            kind = ('builtin', 'list')
        elif isinstance(v, DictVal):
            kind = ('builtin', 'dict')
        elif isinstance(fv, tuple) and fv and fv[0] == 'tok':
            kind = ('builtin', 'str')
        elif isinstance(fv, tuple) and fv and fv[0] == 'sym':
            kind = ('cls', fv[3]) if len(fv) > 4 and fv[3] and fv[4] == ('op',) else None
        elif isinstance(fv, tuple) and fv and fv[0] == 'new':
            kind = ('cls', fv[1])
        elif is_const(fv):
            tn = type(fv[1]).__name__
            kind = ('builtin', tn)
        elif isinstance(fv, tuple) and fv and fv[0] == 'param' and getattr(self, 'top_frame', None) is not None \
                and self.top_frame.self_name == fv[1] and self.top_frame.cls and self.closure is None \
                and self.top_frame.cls in self.facts.classes:
            # the method is analysed as a method of exactly this class
            mine = self.top_frame.cls
            for c in cs:
                if c[0] == 'cls' and self.facts.is_subclass(mine, c[1]):
                    return True
                if c == ('builtin', 'object'):
                    return True
            return False
        elif isinstance(fv, tuple) and fv and fv[0] == 'exc' and fv[1]:
            # an exception known to be an instance of (one of) the listed classes
            verdicts = []
            for t_ in fv[1]:
                vv = [self.exc_subclass(t_, c) for c in cs]
                verdicts.append(True if any(x is True for x in vv) else (False if all(x is False for x in vv) else None))
            if all(x is True for x in verdicts):
                return True
            if all(x is False for x in verdicts):
                return False
            return None
        if kind is None:
            return None
        for c in cs:
            if kind == c:
                return True
            if kind[0] == 'cls' and c[0] == 'cls' and self.facts.is_subclass(kind[1], c[1]):
                return True
            if kind == ('builtin', 'bool') and c == ('builtin', 'int'):
                return True
        # a grammar symbol is known by the *base* class of what it can hold: whether it is an instance of a proper
        # subclass depends on the subtree that was parsed
        if isinstance(fv, tuple) and fv and fv[0] == 'sym' and kind[0] == 'cls':
            for c in cs:
                if c[0] == 'cls' and c[1] != kind[1] and self.facts.is_subclass(c[1], kind[1]):
                    return None
        return False

    def _construct(self, qual, args, kwargs, node, fr, eid):
        """Constructor call of a package class: bind dataclass fields."""
        ci = self.facts.cls(qual)
        self.created.add(eid)
        fields = self.facts.all_fields(qual, ctor=True)
        is_dc = any(self.facts.cls(q).is_dataclass for q in self.facts.mro(qual) if q in self.facts.classes)
        init = self.facts.find_method(qual, '__init__')
        # exception objects are opaque: what their constructors do with the message is a matter of its own (C16.R8), and a
        # `raise E(...)` is one step for every rule that looks at raise sites
        is_exc = any(b in ('Exception', 'BaseException') or b.endswith('Error') for b in self.facts.ext_bases(qual))
        if init and init in self.facts.functions and self.inline and init not in self.stack and len(self.stack) < MAX_INLINE \
                and not is_exc:
            # run the explicit __init__ and read the fields off the attribute stores on self
            fi = self.facts.functions[init]
            obj = ('obj', qual, eid)
            callee = Frame(fi.module, init, fi.cls)
            if self._bind_params(callee, fi.node, [obj] + list(args), kwargs):
                before = len(self.events)
                self.stack.append(init)
                self.fn_stack.append(init)
                self.ctx.append(('inline', eid, init))
                try:
                    try:
                        self._exec_body_of(fi.node, callee)
                    except _Return:
                        pass
                finally:
                    self.ctx.pop()
                    self.fn_stack.pop()
                    self.stack.pop()
                fields_: Dict[str, Any] = {}
                for ev_ in self.events[before:]:
                    if ev_.kind == 'store_attr' and freeze(ev_.obj) == obj:
                        fields_[ev_.attr] = keep(ev_.value)      # closures / spines stored on the object stay callable / iterable
                        ev_.d['init_field'] = True
                return ('new', qual, tuple(fields_.items()), eid)
        if not init and not args and not kwargs and any(
                b in ('dict', 'collections.OrderedDict', 'collections.UserDict') or b.split('[')[0] in ('typing.Dict', 'Dict', 'typing.MutableMapping')
                for b in self.facts.ext_bases(qual)) and not any(self.facts.find_method(qual, m_) for m_ in ('__setitem__', '__getitem__', '__new__')):
            return DictVal([], self.fresh(), cls=qual)       # an (empty) instance of a dict subclass: a dict with extra methods
        nt_ = self._namedtuple_fields(qual) if not init else None
        if nt_ is not None and not any(isinstance(a, tuple) and a[:1] == ('star',) for a in args) and len(args) <= len(nt_) \
                and all(isinstance(k, str) and k in dict(nt_) for k, _ in kwargs):
            # typing.NamedTuple: positional and keyword arguments fill the declared fields, defaults the rest
            vals_ = {}
            for (n_, _d), a in zip(nt_, args):
                vals_[n_] = keep(a)
            for k, v in kwargs:
                vals_[k] = keep(v)
            cfr_ = Frame(ci.module, qual, None)
            for n_, d_ in nt_:
                if n_ not in vals_:
                    if d_ is None:
                        vals_ = None
                        break
                    vals_[n_] = keep(self.ev(d_, cfr_))
            if vals_ is not None:
                return ('new', qual, tuple((n_, vals_[n_]) for n_, _ in nt_), eid)
        if not is_dc or init:
            return ('new', qual, tuple(('arg%d' % i, freeze(a)) for i, a in enumerate(args)) +
                    tuple((k, freeze(v)) for k, v in kwargs), eid)
        vals: Dict[str, Any] = {}
        pos = [a for a in args]
        if any(isinstance(a, tuple) and a and a[0] == 'star' for a in pos):
            if self.prod is not None:
                raise Unrecognised('constructor %s called with *args of unknown length (%s)' % (qual, norm(node)))
            # outside a per-production run (effect scans): an object of the class whose fields are not known one by one
            return ('new', qual, tuple(('arg%d' % i, freeze(a)) for i, a in enumerate(args)) +
                    tuple((k, freeze(v)) for k, v in kwargs), eid)
        if len(pos) > len(fields):
            self.emit('bad_ctor', node, cls=qual, why='too many positional arguments')
        for (n, ann, d, q), a in zip(fields, pos):
            vals[n] = a
        for k, v in kwargs:
            if k is None:
                raise Unrecognised('constructor %s called with **kwargs' % qual)
            if k not in [f[0] for f in fields] or k in vals:
                self.emit('bad_ctor', node, cls=qual, why='unexpected keyword %s' % k)
            vals[k] = v
        out = []
        for n, ann, d, q in fields:
            if n in vals:
                out.append((n, freeze(vals[n])))
            elif d is not None:
                out.append((n, ('default', qual, n)))
            else:
                self.emit('bad_ctor', node, cls=qual, why='missing field %s' % n)
                out.append((n, ('unknown', 'missing')))
        post = self.facts.find_method(qual, '__post_init__')
        if post and post in self.facts.functions and self.inline and post not in self.stack and len(self.stack) < MAX_INLINE:
            # the generated __init__ ends with self.__post_init__(): fields it re-assigns hold the new value afterwards
            obj0 = ('new', qual, tuple(out), eid)
            before = len(self.events)
            self._inline_call(post, [obj0], [], node, ('attr', freeze(obj0), '__post_init__'))
            for ev_ in self.events[before:]:
                if ev_.kind == 'store_attr' and self._heap_key(freeze(ev_.obj) if not isinstance(ev_.obj, tuple) else ev_.obj) == eid:
                    ev_.d['init_field'] = True
            changed = self.heap.get(eid, {})
            out = [(n, freeze(changed[n]) if n in changed else v) for n, v in out]
        return ('new', qual, tuple(out), eid)

    # method calls on known list spines need the receiver object, not its frozen form
    def ex_Call_method_on_list(self, recv: ListVal, meth: str, args, node):
        if meth == 'append' and len(args) == 1:
            recv.elts.append(args[0])
            return True
        if meth == 'extend' and len(args) == 1 and isinstance(args[0], ListVal):
            recv.elts.extend(args[0].elts)
            return True
        if meth == 'extend' and len(args) == 1 and isinstance(args[0], tuple) and args[0][:1] == ('tuple',):
            recv.elts.extend(args[0][1:])
            return True
        if meth == 'extend' and len(args) == 1 and isinstance(args[0], tuple) and args[0][:1] == ('symlist',):
            recv.elts.append(('star', freeze(args[0])))        # xs.extend(<list-valued grammar symbol>) == [*xs, *$k]
            return True
        if meth == 'insert' and len(args) == 2 and is_const(args[0]) and isinstance(args[0][1], int) and recv.concrete():
            recv.elts.insert(args[0][1], args[1])
            return True
        return False


# the method-on-list hook needs the live receiver; wrap ex_Call
_orig_ex_Call = SymExec.ex_Call


def _ex_Call(self: SymExec, e, fr):
    if isinstance(e.func, ast.Name) and e.func.id == 'next' and 1 <= len(e.args) <= 2 and not e.keywords \
            and isinstance(e.args[0], ast.GeneratorExp) and len(e.args[0].generators) == 1 and not e.args[0].generators[0].is_async \
            and self.facts.resolve_name(fr.module, 'next')[0] == 'builtin' and 'next' not in fr.env:
        # next((E for x in xs if C), default): the first element that passes, found by going through xs in order
        ge = e.args[0]
        g = ge.generators[0]
        it = self.ev(g.iter, fr)
        spine = it.elts if isinstance(it, ListVal) and it.concrete() else (
            list(it[1:]) if isinstance(it, tuple) and it[:1] == ('tuple',) and not any(isinstance(x, tuple) and x[:1] == ('star',) for x in it[1:]) else None)
        if spine is not None and len(spine) <= 32:
            inner = Frame(fr.module, fr.qual, fr.cls, env={}, outer=fr, self_name=fr.self_name)
            for el in spine:
                self.assign(g.target, el, inner, e)
                if all(self.truth(self.ev(c, inner), c) for c in g.ifs):
                    return self.ev(ge.elt, inner)
            if len(e.args) == 2:
                return self.ev(e.args[1], fr)
            exc = ('call', self.fresh(), ('ref', 'builtin', 'StopIteration'), (), ())
            self.emit('raise', e, exc=exc, implicit=True)
            raise _Raise(exc, e)
    if isinstance(e.func, ast.Name) and e.func.id == 'setattr' and len(e.args) == 3 and not e.keywords \
            and self.facts.resolve_name(fr.module, 'setattr')[0] == 'builtin' and 'setattr' not in fr.env:
        # setattr(obj, '<constant>', v) is the attribute store obj.<constant> = v
        obj = self.ev(e.args[0], fr)
        nm = self.ev(e.args[1], fr)
        seen = self.facts.__dict__.setdefault('_setattr_nodes', {})
        if is_const(freeze(nm)) and isinstance(freeze(nm)[1], str):
            val = self.ev(e.args[2], fr)
            seen.setdefault(id(e), [e, True])
            self.emit('store_attr', e, obj=obj, attr=freeze(nm)[1], value=val)
            return ('const', None)
        seen[id(e)] = [e, False]
        return self.call(('ref', 'builtin', 'setattr'), [obj, nm, self.ev(e.args[2], fr)], [], e, fr)
    if isinstance(e.func, ast.Attribute) and e.func.attr in ('callback', 'push', 'enter_context', 'close', 'pop_all'):
        recv0 = self.ev(e.func.value, fr)
        if isinstance(recv0, ExitStackVal):
            if e.func.attr != 'callback' or not e.args:
                raise Unrecognised('ExitStack.%s is not modelled (%s)' % (e.func.attr, norm(e)))
            args0 = self._elts(e.args, fr)
            kw0 = [(kw.arg, self.ev(kw.value, fr)) for kw in e.keywords]
            recv0.callbacks.append((args0[0], args0[1:], kw0, e))
            return args0[0]
    if isinstance(e.func, ast.Attribute) and e.func.attr == 'join' and len(e.args) == 1 and not e.keywords \
            and isinstance(e.args[0], ast.GeneratorExp):
        # sep.join(<generator expression>) consumes the generator on the spot: same as the list comprehension
        recv = self.ev(e.func.value, fr)
        func = self.attr(recv, 'join', e.func, fr)
        return self.call(func, [self._comp(e.args[0], fr, 'list')], [], e, fr)
    if isinstance(e.func, ast.Attribute) and isinstance(e.func.value, ast.Name):
        recv0 = self.load_name(e.func.value.id, fr, e.func.value) if (e.func.value.id in fr.env or any(
            e.func.value.id in (self.module_env.get(fr.module.name) or {}) for _ in (0,))) else None
        if isinstance(recv0, DictVal) and recv0.cls:
            mq_ = self.facts.find_method(recv0.cls, e.func.attr)
            if mq_ and mq_ in self.facts.functions and mq_ not in self.stack and len(self.stack) < MAX_INLINE:
                args_ = self._elts(e.args, fr)
                kw_ = [(kw.arg, self.ev(kw.value, fr)) for kw in e.keywords]
                return self._inline_call(mq_, [recv0] + args_, kw_, e, ('attr', freeze(recv0), e.func.attr))
    if isinstance(e.func, ast.Attribute) and e.func.attr in ('items', 'keys', 'values') and not e.args and not e.keywords:
        recv = self.ev(e.func.value, fr)
        if isinstance(recv, DictVal) and all(it[0] != 'dstar' for it in recv.items):
            # a dict whose entries are all known: its views in insertion order (later duplicates of a constant key win)
            seen_, order_ = {}, []
            for k_, v_ in recv.items:
                fk = freeze(k_)
                if fk not in seen_:
                    order_.append(fk)
                seen_[fk] = (k_, v_)
            pairs_ = [seen_[fk] for fk in order_]
            if e.func.attr == 'items':
                return ListVal([('tuple', keep(k_), keep(v_)) for k_, v_ in pairs_], self.fresh())
            if e.func.attr == 'keys':
                return ListVal([keep(k_) for k_, _ in pairs_], self.fresh())
            return ListVal([keep(v_) for _, v_ in pairs_], self.fresh())
        func = self.attr(recv, e.func.attr, e.func, fr)
        return self.call(func, [], [], e, fr)
    if isinstance(e.func, ast.Attribute) and e.func.attr == 'update' and (len(e.args) + len(e.keywords)) >= 1:
        recv = self.ev(e.func.value, fr)
        if isinstance(recv, GlobalsVal):
            # globals().update({...}, k=v): module-level bindings made from a dict whose keys are all known
            for a in [self._comp(x_, fr, 'list') if isinstance(x_, ast.GeneratorExp) else self.ev(x_, fr) for x_ in e.args]:
                # (a generator of (name, value) pairs is consumed by update() at once: the list it yields)
                if isinstance(a, ListVal) and a.concrete() and all(isinstance(x, tuple) and x[:1] == ('tuple',) and len(x) == 3 for x in a.elts):
                    a = DictVal([(x[1], x[2]) for x in a.elts], self.fresh())
                if not isinstance(a, DictVal) or any(i[0] == 'dstar' or not (is_const(freeze(i[0])) and isinstance(freeze(i[0])[1], str)) for i in a.items):
                    raise Unrecognised('globals().update(%s): the names bound are not all known' % show(a))
                for k_, v_ in a.items:
                    recv.env[freeze(k_)[1]] = v_
            for kw in e.keywords:
                v_ = self.ev(kw.value, fr)
                if kw.arg is None:
                    if not isinstance(v_, DictVal) or any(i[0] == 'dstar' or not is_const(freeze(i[0])) for i in v_.items):
                        raise Unrecognised('globals().update(**%s): the names bound are not all known' % show(v_))
                    for k2, v2 in v_.items:
                        recv.env[freeze(k2)[1]] = v2
                else:
                    recv.env[kw.arg] = v_
            return ('const', None)
        if isinstance(recv, DictVal):
            # d.update(other, k=v ...) on a dict whose entries are known: entries of known dicts are added, anything else
            # leaves an unknown remainder
            args = self._elts(e.args, fr)
            kwargs = []
            for kw in e.keywords:
                v = self.ev(kw.value, fr)
                kwargs.append((kw.arg, v))
            self.emit('call', e, func=('attr', freeze(recv), 'update'), args=tuple(freeze(a) for a in args),
                      kwargs=tuple((k, freeze(v)) for k, v in kwargs), resolved=None, handlers=self._handlers(), result=('const', None),
                      inlined=False, on_fresh_dict=True)
            for a in args:
                if isinstance(a, DictVal):
                    recv.items.extend(a.items)
                else:
                    recv.items.append(('dstar', freeze(a)))
            for k, v in kwargs:
                if k is None:
                    if isinstance(v, DictVal):
                        recv.items.extend(v.items)
                    else:
                        recv.items.append(('dstar', freeze(v)))
                else:
                    recv.items.append((('const', k), v))
            return ('const', None)
    if isinstance(e.func, ast.Attribute) and e.func.attr in ('index', 'count') and len(e.args) == 1 and not e.keywords:
        recv = self.ev(e.func.value, fr)
        spine = recv.elts if isinstance(recv, ListVal) and recv.concrete() else (
            list(recv[1:]) if isinstance(recv, tuple) and recv[:1] == ('tuple',) else None)
        if spine is not None and e.func.attr == 'index' and self.prod is not None and len(spine) <= 8 \
                and not all(is_const(freeze(x)) for x in spine):
            # xs.index(v) over a known spine of grammar values: the first position whose element equals v, one comparison at
            # a time (two different subtrees may or may not be equal: both outcomes are followed)
            a0 = self.ev(e.args[0], fr)
            for i_, el_ in enumerate(spine):
                if freeze(el_) == freeze(a0) or self.truth(self.compare('==', el_, a0, e), e):
                    return ('const', i_)
            exc = ('call', self.fresh(), ('ref', 'builtin', 'ValueError'), (), ())
            self.emit('raise', e, exc=exc, implicit=True)
            raise _Raise(exc, e)
        if spine is not None and all(is_const(freeze(x)) for x in spine):
            a0 = self.ev(e.args[0], fr)
            if is_const(freeze(a0)):
                vals = [freeze(x)[1] for x in spine]
                if e.func.attr == 'count':
                    return ('const', vals.count(freeze(a0)[1]))
                if freeze(a0)[1] in vals:
                    return ('const', vals.index(freeze(a0)[1]))
                exc = ('call', self.fresh(), ('ref', 'builtin', 'ValueError'), (), ())
                self.emit('raise', e, exc=exc, implicit=True)
                raise _Raise(exc, e)
        func = self.attr(recv, e.func.attr, e.func, fr)
        args = self._elts(e.args, fr)
        return self.call(func, args, [], e, fr)
    if isinstance(e.func, ast.Attribute) and e.func.attr == 'pop' and len(e.args) <= 1 and not e.keywords:
        recv = self.ev(e.func.value, fr)
        if isinstance(recv, ListVal) and recv.concrete() and recv.elts and self.heap is not None and any(
                recv is v_ for d_ in self.heap.values() for v_ in d_.values()):
            # pop on a list that is a field of an object built on this path (its spine is followed exactly)
            args_ = self._elts(e.args, fr)
            ix_ = freeze(args_[0]) if args_ else ('const', -1)
            if is_const(ix_) and isinstance(ix_[1], int) and -len(recv.elts) <= ix_[1] < len(recv.elts):
                self.emit('call', e, func=('attr', freeze(recv), 'pop'), args=tuple(freeze(a) for a in args_), kwargs=(), resolved=None,
                          handlers=self._handlers(), result=freeze(recv.elts[ix_[1]]), inlined=False, on_fresh_list=True)
                return recv.elts.pop(ix_[1])
        func = self.attr(recv, e.func.attr, e.func, fr)
        args = self._elts(e.args, fr)
        return self.call(func, args, [], e, fr)
    if isinstance(e.func, ast.Attribute) and e.func.attr in ('append', 'extend', 'insert'):
        recv = self.ev(e.func.value, fr)
        if isinstance(recv, ListVal):
            args = self._elts(e.args, fr)
            ok = self.ex_Call_method_on_list(recv, e.func.attr, args, e)
            self.emit('call', e, func=('attr', freeze(recv), e.func.attr), args=tuple(freeze(a) for a in args),
                      kwargs=(), resolved=None, handlers=self._handlers(), result=('const', None), inlined=False,
                      on_fresh_list=True, spine_known=ok)
            if not ok:
                if e.func.attr == 'extend' and len(args) == 1 and not isinstance(args[0], (ProdVal, Closure)):
                    recv.elts.append(('star', ('unknown', 'after-extend', freeze(args[0]))))      # some elements of that iterable
                else:
                    recv.elts.append(('star', ('unknown', 'after-%s' % e.func.attr)))
            return ('const', None)
        # fall through: evaluate normally (receiver evaluated twice is harmless: no events for names)
        func = self.attr(recv, e.func.attr, e.func, fr)
        args = self._elts(e.args, fr)
        kwargs = [(kw.arg, self.ev(kw.value, fr)) for kw in e.keywords]
        return self.call(func, args, kwargs, e, fr)
    return _orig_ex_Call(self, e, fr)


SymExec.ex_Call = _ex_Call  # type: ignore


def _is_generator(node) -> bool:
    if isinstance(node, ast.Lambda):
        return False
    for n in _walk_no_nested(node):
        if isinstance(n, (ast.Yield, ast.YieldFrom)):
            return True
    return False


def _walk_no_nested(node):
    todo = list(ast.iter_child_nodes(node))
    while todo:
        n = todo.pop()
        yield n
        if isinstance(n, (ast.FunctionDef, ast.AsyncFunctionDef, ast.Lambda, ast.ClassDef)):
            continue
        todo.extend(ast.iter_child_nodes(n))


def _has_decorator(node, name: str) -> bool:
    for d in getattr(node, 'decorator_list', []):
        if isinstance(d, ast.Name) and d.id == name:
            return True
        if isinstance(d, ast.Attribute) and d.attr == name:
            return True
    return False


def _is_static(node) -> bool:
    return _has_decorator(node, 'staticmethod')


def _assigned_names(stmts, env=None) -> List[str]:
    out = []
    for st in stmts:
        for n in [st] + list(_walk_no_nested(st)):
            tgts = []
            if isinstance(n, ast.Assign):
                tgts = n.targets
            elif isinstance(n, (ast.AugAssign, ast.AnnAssign)):
                tgts = [n.target]
            elif isinstance(n, (ast.For, ast.comprehension)):
                tgts = [n.target]
            elif isinstance(n, ast.NamedExpr):
                tgts = [n.target]
            elif isinstance(n, ast.With):
                tgts = [i.optional_vars for i in n.items if i.optional_vars is not None]
            for t in tgts:
                for x in ast.walk(t):
                    if isinstance(x, ast.Name) and x.id not in out:
                        if isinstance(x.ctx, ast.Store) or env is None or isinstance(env.get(x.id), (ListVal, DictVal)):
                            # a name that is re-bound; or the base of a subscript/attribute store whose value is a container
                            # the evaluator models (its contents change with every iteration).  A parameter or another plain
                            # term that is merely written *through* keeps denoting the same object.
                            out.append(x.id)
    return out


def paths_of(facts: Facts, qual: str, **kw) -> List[Path]:
    return SymExec(facts, facts.func(qual), **kw).run()


def closure_paths(facts: Facts, owner: FuncInfo, c: Closure, **kw) -> List[Path]:
    fi = FuncInfo(c.qual, c.module, c.node, cls=None)
    return SymExec(facts, fi, closure=c, **kw).run()


def exec_module_body(F, m):
    """Bindings a package module makes while it is imported: the module body is run once through the evaluator (classes and
    imports are taken from the fact base; package decorators are applied, so registration decorators fill their tables).
    Cached per fact base."""
    cache = F.__dict__.setdefault('_module_env_cache', {})
    if m.name in cache:
        return cache[m.name]
    cache[m.name] = {}            # re-entrancy guard
    problems = F.__dict__.setdefault('_module_env_problems', {}).setdefault(m.name, [])      # statements that could not be run
    dummy = ast.parse('def __module_body__():\n    pass').body[0]
    from .facts import FuncInfo
    se = SymExec(F, FuncInfo(m.name + '.<module>', m, dummy))
    se._reset([])
    fr = Frame(m, m.name + '.<module>', None)
    se.module_env[m.name] = fr.env
    order = F.__dict__.setdefault('_module_env_order', {}).setdefault(m.name, [])

    def note():
        for k_ in fr.env:
            if k_ not in order:
                order.append(k_)
    for st in m.tree.body:
        note()
        if isinstance(st, (ast.FunctionDef, ast.ClassDef)) and st.name not in order:
            order.append(st.name)
        try:
            if isinstance(st, (ast.ClassDef, ast.Import, ast.ImportFrom)):
                continue
            if isinstance(st, ast.FunctionDef):
                qual = m.name + '.' + st.name
                if se.package_decorators(m, st):
                    cur = ('ref', 'fnraw', qual)
                    origin = F.__dict__.setdefault('_closure_origin', {})
                    for d in reversed(se.package_decorators(m, st)):
                        dec = se.ev(d, fr)
                        cur = se.call(dec, [cur], [], d, fr)
                        if isinstance(cur, Closure):
                            origin[cur.cid] = qual       # a wrapper standing for the def that is being decorated
                    fr.env[st.name] = cur
                continue
            se.exec_stmt(st, fr)
        except (Unrecognised, _Signal, _NeedMoreChoices) as ex_:
            problems.append((st, '%s: %s' % (type(ex_).__name__, ex_)))
            continue
    note()
    cache[m.name] = fr.env
    return fr.env


def module_binding_order(F, m):
    """Names bound by the module body in the order of their first binding (defs and assignments alike), as the module's
    __dict__ would list them."""
    exec_module_body(F, m)
    return F.__dict__.get('_module_env_order', {}).get(m.name, [])
