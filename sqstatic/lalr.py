"""Own LALR(1) construction with yacc conflict resolution, plus a second
opinion from PLY's table generator (loaded by file path; only the generator
runs -- no lexer, no grammar action, no evaluator code).
"""
from __future__ import annotations

import importlib.util
import os
from dataclasses import dataclass, field
from typing import Any, Dict, FrozenSet, List, Optional, Set, Tuple

from .facts import Facts, AnalysisError
from .grammar import Grammar, Production

Item = Tuple[int, int]          # (production index, dot position)
END = '$end'


@dataclass
class Decision:
    """One place where the automaton had a choice and a rule made it."""
    state: int
    prod: int                   # the completed production
    token: str
    kind: str                   # 'sr' | 'rr'
    result: str                 # 'shift' | 'reduce' | 'error'
    by: str                     # 'precedence' | 'default' | 'order'
    other: Any = None           # shift target state / losing production
    counted: bool = False       # PLY counts it as a conflict


@dataclass
class Tables:
    grammar: Grammar
    kernels: List[FrozenSet[Item]]
    closures: List[List[Item]]
    lookaheads: List[Dict[Item, Set[str]]]
    action: List[Dict[str, Tuple]]
    goto: List[Dict[str, int]]
    decisions: List[Decision]
    never_reduced: List[int]

    @property
    def sr_count(self) -> int:
        return sum(1 for d in self.decisions if d.kind == 'sr' and d.counted)

    @property
    def rr_count(self) -> int:
        return sum(1 for d in self.decisions if d.kind == 'rr')


def build(g: Grammar) -> Tables:
    prods = g.productions
    nts = set(g.nonterminals) | {"S'"}
    by_lhs: Dict[str, List[int]] = {}
    for p in prods:
        by_lhs.setdefault(p.lhs, []).append(p.index)
    for p in prods:
        for s in p.rhs:
            if s not in nts and s not in g.tokens and s != 'error':
                raise AnalysisError('grammar: symbol %s used in `%s` is neither a token nor a non-terminal' % (s, p))

    # ---- nullable / FIRST
    nullable: Set[str] = set()
    changed = True
    while changed:
        changed = False
        for p in prods:
            if p.lhs not in nullable and all(s in nullable for s in p.rhs):
                nullable.add(p.lhs)
                changed = True
    first: Dict[str, Set[str]] = {n: set() for n in nts}
    changed = True
    while changed:
        changed = False
        for p in prods:
            for s in p.rhs:
                add = first[s] if s in nts else {s}
                if not add <= first[p.lhs]:
                    first[p.lhs] |= add
                    changed = True
                if s not in nullable:
                    break

    def first_of(seq: Tuple[str, ...], la: Set[str]) -> Set[str]:
        out: Set[str] = set()
        for s in seq:
            if s in nts:
                out |= first[s]
                if s not in nullable:
                    return out
            else:
                out.add(s)
                return out
        return out | la

    # ---- LR(0) automaton
    def closure0(kernel) -> List[Item]:
        out = list(kernel)
        seen = set(out)
        i = 0
        while i < len(out):
            pi, d = out[i]
            i += 1
            rhs = prods[pi].rhs
            if d < len(rhs) and rhs[d] in nts:
                for q in by_lhs.get(rhs[d], []):
                    it = (q, 0)
                    if it not in seen:
                        seen.add(it)
                        out.append(it)
        return out

    kernels: List[FrozenSet[Item]] = [frozenset({(0, 0)})]
    index = {kernels[0]: 0}
    closures: List[List[Item]] = []
    trans: List[Dict[str, int]] = []
    i = 0
    while i < len(kernels):
        cl = closure0(sorted(kernels[i]))
        closures.append(cl)
        moves: Dict[str, List[Item]] = {}
        for pi, d in cl:
            rhs = prods[pi].rhs
            if d < len(rhs):
                moves.setdefault(rhs[d], []).append((pi, d + 1))
        t: Dict[str, int] = {}
        for sym, items in moves.items():
            k = frozenset(items)
            if k not in index:
                index[k] = len(kernels)
                kernels.append(k)
            t[sym] = index[k]
        trans.append(t)
        i += 1

    # ---- LALR lookaheads by propagation (dragon book 4.7.5)
    la: List[Dict[Item, Set[str]]] = [{it: set() for it in k} for k in kernels]
    la[0][(0, 0)].add(END)
    prop: Dict[Tuple[int, Item], List[Tuple[int, Item]]] = {}
    DUMMY = '#'

    def closure1(item: Item) -> Dict[Item, Set[str]]:
        out: Dict[Item, Set[str]] = {item: {DUMMY}}
        work = [item]
        while work:
            it = work.pop()
            pi, d = it
            rhs = prods[pi].rhs
            if d < len(rhs) and rhs[d] in nts:
                f = first_of(rhs[d + 1:], out[it])
                for q in by_lhs.get(rhs[d], []):
                    n = (q, 0)
                    cur = out.setdefault(n, set())
                    if not f <= cur:
                        cur |= f
                        work.append(n)
        return out

    for si, k in enumerate(kernels):
        for kit in k:
            cl1 = closure1(kit)
            for (pi, d), las in cl1.items():
                rhs = prods[pi].rhs
                if d < len(rhs):
                    tgt = (trans[si][rhs[d]], (pi, d + 1))
                    for a in las:
                        if a == DUMMY:
                            prop.setdefault((si, kit), []).append(tgt)
                        else:
                            la[tgt[0]][tgt[1]].add(a)
    changed = True
    while changed:
        changed = False
        for (si, kit), tgts in prop.items():
            src = la[si][kit]
            for tj, tit in tgts:
                dst = la[tj][tit]
                if not src <= dst:
                    dst |= src
                    changed = True

    # lookaheads of completed closure items (incl. non-kernel empty productions)
    full_la: List[Dict[Item, Set[str]]] = []
    for si, k in enumerate(kernels):
        d: Dict[Item, Set[str]] = {}
        # LR(1) closure of the kernel with its real lookaheads
        out: Dict[Item, Set[str]] = {it: set(la[si][it]) for it in k}
        work = list(k)
        while work:
            it = work.pop()
            pi, dd = it
            rhs = prods[pi].rhs
            if dd < len(rhs) and rhs[dd] in nts:
                f = first_of(rhs[dd + 1:], out[it])
                for q in by_lhs.get(rhs[dd], []):
                    n = (q, 0)
                    cur = out.setdefault(n, set())
                    if not f <= cur:
                        cur |= f
                        work.append(n)
        full_la.append(out)

    # ---- tables with yacc resolution
    prec_of = g.prec_of
    action: List[Dict[str, Tuple]] = []
    goto: List[Dict[str, int]] = []
    decisions: List[Decision] = []
    reduced = [0] * len(prods)
    for si, cl in enumerate(closures):
        act: Dict[str, Tuple] = {}
        # shifts first (order does not matter for the symmetric rule; conflicts are recorded once)
        shifts = {sym: j for sym, j in trans[si].items() if sym not in nts}
        reduces: Dict[str, List[int]] = {}
        for it in cl:
            pi, d = it
            if d == len(prods[pi].rhs):
                if pi == 0:
                    act[END] = ('acc',)
                    continue
                for a in sorted(full_la[si].get(it, ())):
                    reduces.setdefault(a, []).append(pi)
        for a, j in shifts.items():
            act[a] = ('s', j)
        for a, plist in reduces.items():
            # reduce/reduce: production defined first wins
            plist = sorted(set(plist), key=lambda q: (prods[q].line, q))
            win = plist[0]
            for lose in plist[1:]:
                decisions.append(Decision(si, win, a, 'rr', 'reduce', 'order', other=lose, counted=True))
            if a in shifts:
                slevel = prec_of.get(a, ('right', 0))[1]
                rprec, rlevel = prods[win].prec or ('right', 0)
                by = 'precedence' if (slevel and rlevel) else 'default'
                if slevel < rlevel or (slevel == rlevel and rprec == 'left'):
                    act[a] = ('r', win)
                    decisions.append(Decision(si, win, a, 'sr', 'reduce', by, other=shifts[a],
                                              counted=(not slevel and not rlevel)))
                elif slevel == rlevel and rprec == 'nonassoc':
                    act[a] = ('err',)
                    decisions.append(Decision(si, win, a, 'sr', 'error', 'precedence', other=shifts[a]))
                else:
                    decisions.append(Decision(si, win, a, 'sr', 'shift', by, other=shifts[a], counted=not rlevel))
            else:
                act[a] = ('r', win)
        for a, v in act.items():
            if v[0] == 'r':
                reduced[v[1]] += 1
        action.append(act)
        goto.append({sym: j for sym, j in trans[si].items() if sym in nts})
    never = [p.index for p in prods[1:] if reduced[p.index] == 0]
    return Tables(g, kernels, closures, full_la, action, goto, decisions, never)


# ------------------------------------------------------------ second opinion
class _NullLog:
    def __getattr__(self, k):
        return lambda *a, **kw: None


def ply_tables(F: Facts, g: Grammar):
    """Run PLY's own generator on the statically extracted grammar."""
    path = os.path.join(F.pkgdir, 'ply', 'yacc.py')
    if not os.path.exists(path):
        raise AnalysisError('anchor vanished: %s' % path)
    spec = importlib.util.spec_from_file_location('_sqstatic_ply_yacc', path)
    mod = importlib.util.module_from_spec(spec)
    import sys
    old = sys.dont_write_bytecode
    sys.dont_write_bytecode = True
    try:
        spec.loader.exec_module(mod)  # type: ignore
    finally:
        sys.dont_write_bytecode = old
    gr = mod.Grammar(list(g.tokens))
    for level, row in enumerate(g.precedence, 1):
        for t in row[1:]:
            gr.set_precedence(t, row[0], level)
    for p in g.productions[1:]:
        syms = list(p.rhs)
        if p.explicit_prec:
            syms += ['%prec', p.explicit_prec]
        gr.add_production(p.lhs, syms, p.func, g.module.path, p.line)
    gr.set_start(g.start)
    gr.compute_first()
    gr.compute_follow()
    lr = mod.LRGeneratedTable(gr, 'LALR', _NullLog())
    return gr, lr


def compare_with_ply(F: Facts, t: Tables) -> Dict[str, Any]:
    """Match states by lock-step walk from state 0 and compare every action cell."""
    g = t.grammar
    gr, lr = ply_tables(F, g)
    # production numbering must agree
    if len(gr.Productions) != len(g.productions):
        raise AnalysisError('PLY sees %d productions, extraction %d' % (len(gr.Productions), len(g.productions)))
    for a, b in zip(gr.Productions, g.productions):
        if a.name != b.lhs or tuple(a.prod) != tuple(b.rhs):
            raise AnalysisError('production %d differs: PLY `%s`, extraction `%s`' % (b.index, a, b))
    mapping = {0: 0}
    todo = [0]
    diffs: List[str] = []
    while todo:
        s = todo.pop()
        ps = mapping[s]
        mine = t.action[s]
        theirs = lr.lr_action[ps]
        keys = set(mine) | set(theirs)
        for k in sorted(keys):
            m = mine.get(k)
            y = theirs.get(k, 'absent')
            if m is None:
                if y is None or y == 'absent':
                    continue
                diffs.append('state %d on %s: own tables have no entry, PLY has %r' % (s, k, y))
                continue
            if m[0] == 'err':
                if y is not None:
                    diffs.append('state %d on %s: own tables: nonassoc error, PLY: %r' % (s, k, y))
                continue
            if y == 'absent' or y is None:
                diffs.append('state %d on %s: own tables %r, PLY has no entry' % (s, k, m))
                continue
            if m[0] == 'acc':
                if y != 0:
                    diffs.append('state %d on %s: accept vs %r' % (s, k, y))
            elif m[0] == 'r':
                if y != -m[1]:
                    diffs.append('state %d on %s: own tables reduce by `%s`, PLY: %s' % (
                        s, k, g.productions[m[1]], _descr(g, y)))
            elif m[0] == 's':
                if y <= 0:
                    diffs.append('state %d on %s: own tables shift, PLY: %s' % (s, k, _descr(g, y)))
                else:
                    if m[1] in mapping:
                        if mapping[m[1]] != y:
                            diffs.append('state %d on %s: shift targets differ' % (s, k))
                    else:
                        mapping[m[1]] = y
                        todo.append(m[1])
        for k, j in t.goto[s].items():
            y = lr.lr_goto[ps].get(k)
            if y is None:
                diffs.append('state %d goto %s missing in PLY' % (s, k))
            elif j in mapping:
                if mapping[j] != y:
                    diffs.append('state %d goto %s differs' % (s, k))
            else:
                mapping[j] = y
                todo.append(j)
    return {
        'own_states': len(t.kernels), 'ply_states': len(lr.lr_action), 'mapped': len(mapping),
        'own_sr': t.sr_count, 'ply_sr': len(lr.sr_conflicts), 'own_rr': t.rr_count, 'ply_rr': len(lr.rr_conflicts),
        'diffs': diffs,
    }


def _descr(g: Grammar, y) -> str:
    if y is None:
        return 'error'
    if y > 0:
        return 'shift'
    if y == 0:
        return 'accept'
    return 'reduce by `%s`' % g.productions[-y]


# ------------------------------------------------------------ table queries
def simulate(t: Tables, tokens: List[str], max_steps: int = 10000) -> Tuple[bool, str, List[int]]:
    """Drive the automaton over a token skeleton (a path query on the tables; no program text, no actions).

    Returns (accepted, description of where it stopped, list of production indices reduced)."""
    g = t.grammar
    stack = [0]
    toks = list(tokens) + [END]
    i = 0
    reduced: List[int] = []
    for _ in range(max_steps):
        s = stack[-1]
        a = toks[i]
        act = t.action[s].get(a)
        if act is None:
            # default reduction states (PLY's defaulted_states): a single reduce regardless of lookahead
            return (False, 'no action in state %d on %s (token %d of the skeleton)' % (s, a, i), reduced)
        if act[0] == 's':
            stack.append(act[1])
            i += 1
        elif act[0] == 'r':
            p = g.productions[act[1]]
            if p.rhs:
                del stack[-len(p.rhs):]
            stack.append(t.goto[stack[-1]][p.lhs])
            reduced.append(p.index)
        elif act[0] == 'acc':
            return (True, 'accepted', reduced)
        else:
            return (False, 'non-associative error entry in state %d on %s' % (s, a), reduced)
    return (False, 'step limit', reduced)


def shortest_expansions(g: Grammar, skip=()) -> Dict[str, Tuple[str, ...]]:
    """Shortest terminal string each non-terminal derives (productions in `skip` are not used)."""
    nts = set(g.nonterminals)
    best: Dict[str, Tuple[str, ...]] = {}
    changed = True
    while changed:
        changed = False
        for p in g.productions[1:]:
            if p.index in skip:
                continue
            if all(s not in nts or s in best for s in p.rhs):
                exp: Tuple[str, ...] = ()
                for s in p.rhs:
                    exp += best[s] if s in nts else (s,)
                if p.lhs not in best or len(exp) < len(best[p.lhs]):
                    best[p.lhs] = exp
                    changed = True
    return best


def contexts(g: Grammar, short: Dict[str, Tuple[str, ...]]) -> Dict[str, Tuple[Tuple[str, ...], Tuple[str, ...]]]:
    """Shortest terminal (prefix, suffix) around each non-terminal in a sentence derived from the start symbol."""
    nts = set(g.nonterminals)
    ctx: Dict[str, Tuple[Tuple[str, ...], Tuple[str, ...]]] = {g.start: ((), ())}
    changed = True
    while changed:
        changed = False
        for p in g.productions[1:]:
            if p.lhs not in ctx:
                continue
            pre, suf = ctx[p.lhs]
            for i, s in enumerate(p.rhs):
                if s not in nts:
                    continue
                try:
                    left: Tuple[str, ...] = ()
                    for x in p.rhs[:i]:
                        left += short[x] if x in nts else (x,)
                    right: Tuple[str, ...] = ()
                    for x in p.rhs[i + 1:]:
                        right += short[x] if x in nts else (x,)
                except KeyError:
                    continue
                cand = (pre + left, right + suf)
                if s not in ctx or len(cand[0]) + len(cand[1]) < len(ctx[s][0]) + len(ctx[s][1]):
                    ctx[s] = cand
                    changed = True
    return ctx


def terminal_classes(g: Grammar) -> Dict[str, str]:
    """Terminals that are interchangeable (swapping them maps the set of productions and the precedence table onto
    itself) -> their representative.  Used to shrink bounded sentence enumeration without losing any shape."""
    nts = set(g.nonterminals)
    terms = [t for t in g.terminals]
    shapes = {(p.lhs, p.rhs, p.prec) for p in g.productions[1:]}
    rep: Dict[str, str] = {}
    for t in terms:
        if t in rep:
            continue
        rep[t] = t
        for u in terms:
            if u in rep or g.prec_of.get(u) != g.prec_of.get(t):
                continue

            def sw(x):
                return u if x == t else (t if x == u else x)
            swapped = {(l, tuple(sw(x) for x in r), pr) for l, r, pr in shapes}
            if swapped == shapes:
                rep[u] = t
    return rep


def sentences(g: Grammar, max_len: int, only: Optional[Set[str]] = None, limit: int = 5_000_000):
    """All terminal strings of length <= max_len the grammar derives (leftmost expansion with length pruning).
    `only`: restrict to productions whose terminals are all in this set."""
    nts = set(g.nonterminals)
    by: Dict[str, List[Production]] = {}
    for p in g.productions[1:]:
        if only is not None and any(s not in nts and s not in only for s in p.rhs):
            continue
        by.setdefault(p.lhs, []).append(p)
    short = shortest_expansions(g)
    minlen = {n: len(short[n]) for n in nts if n in short}
    out: Set[Tuple[str, ...]] = set()
    seen: Set[Tuple[str, ...]] = set()
    stack: List[Tuple[str, ...]] = [(g.start,)]
    while stack:
        form = stack.pop()
        i = next((k for k, x in enumerate(form) if x in nts), None)
        if i is None:
            out.add(form)
            if len(out) > limit:
                raise AnalysisError('sentence enumeration exceeds %d sentences' % limit)
            continue
        for p in by.get(form[i], []):
            nf = form[:i] + p.rhs + form[i + 1:]
            ml = 0
            ok = True
            for x in nf:
                if x in nts:
                    if x not in minlen:
                        ok = False
                        break
                    ml += minlen[x]
                else:
                    ml += 1
            if not ok or ml > max_len or nf in seen:
                continue
            seen.add(nf)
            stack.append(nf)
    return out


def stuck_state(t: Tables, tokens: List[str]) -> Tuple[int, str]:
    """State and lookahead at which the automaton stops on a rejected token string."""
    g = t.grammar
    stack = [0]
    toks = list(tokens) + [END]
    i = 0
    while True:
        s = stack[-1]
        a = toks[i]
        act = t.action[s].get(a)
        if act is None or act[0] == 'err':
            return s, a
        if act[0] == 's':
            stack.append(act[1])
            i += 1
        elif act[0] == 'r':
            p = g.productions[act[1]]
            if p.rhs:
                del stack[-len(p.rhs):]
            stack.append(t.goto[stack[-1]][p.lhs])
        else:
            return s, a


def run_decisions(t: Tables, tokens: List[str]) -> Tuple[bool, List[Decision]]:
    """Drive the automaton; return (accepted, the conflict decisions that were consulted on the way)."""
    idx = getattr(t, '_dec_index', None)
    if idx is None:
        idx = {}
        for d in t.decisions:
            idx.setdefault((d.state, d.token), []).append(d)
        t._dec_index = idx  # type: ignore
    g = t.grammar
    stack = [0]
    toks = list(tokens) + [END]
    i = 0
    seen: List[Decision] = []
    while True:
        s = stack[-1]
        a = toks[i]
        if (s, a) in idx:
            seen.extend(idx[(s, a)])
        act = t.action[s].get(a)
        if act is None or act[0] == 'err':
            return False, seen
        if act[0] == 's':
            stack.append(act[1])
            i += 1
        elif act[0] == 'r':
            p = g.productions[act[1]]
            if p.rhs:
                del stack[-len(p.rhs):]
            stack.append(t.goto[stack[-1]][p.lhs])
        else:
            return True, seen
